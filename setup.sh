#!/bin/bash
# builds the verification engine from /verif/engine, offline
export GOFLAGS=-mod=mod GOPROXY=off GOSUMDB=off GOTOOLCHAIN=local
cd /verif/engine && mkdir -p ../bin && go build -o ../bin/govc . && echo "govc built"
