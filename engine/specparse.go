package main

import (
	"fmt"
	"strings"
	"unicode"
)

// Spec expression AST (Gobra-like surface syntax inside //@ comments).
type SExpr struct {
	Op   string   // "id","int","str","bool","nil","call","field","index","slice","unop","binop","forall","exists","old","ite","let"
	Name string   // id name / field name / operator / callee
	Args []*SExpr // operands
	Vars []SVar   // quantifier binders
	Pos  int
}

type SVar struct {
	Name string
	Type string // "int","string","bool","ref","any", or a struct name "*Header", or "seq<...>"
}

type tok struct {
	kind string // "id","int","str","op","eof"
	text string
	pos  int
}

func lexSpec(s string) ([]tok, error) {
	var toks []tok
	i := 0
	for i < len(s) {
		c := s[i]
		switch {
		case c == ' ' || c == '\t' || c == '\n' || c == '\r':
			i++
		case unicode.IsLetter(rune(c)) || c == '_' || c == '$':
			j := i + 1
			for j < len(s) && (unicode.IsLetter(rune(s[j])) || unicode.IsDigit(rune(s[j])) || s[j] == '_' || s[j] == '$') {
				j++
			}
			toks = append(toks, tok{"id", s[i:j], i})
			i = j
		case unicode.IsDigit(rune(c)):
			j := i + 1
			for j < len(s) && unicode.IsDigit(rune(s[j])) {
				j++
			}
			toks = append(toks, tok{"int", s[i:j], i})
			i = j
		case c == '"':
			j := i + 1
			var b strings.Builder
			for j < len(s) && s[j] != '"' {
				if s[j] == '\\' && j+1 < len(s) {
					switch s[j+1] {
					case 'n':
						b.WriteByte('\n')
					case 'r':
						b.WriteByte('\r')
					case 't':
						b.WriteByte('\t')
					case '\\':
						b.WriteByte('\\')
					case '"':
						b.WriteByte('"')
					default:
						return nil, fmt.Errorf("bad escape at %d", j)
					}
					j += 2
					continue
				}
				b.WriteByte(s[j])
				j++
			}
			if j >= len(s) {
				return nil, fmt.Errorf("unterminated string")
			}
			toks = append(toks, tok{"str", b.String(), i})
			i = j + 1
		case c == '\'':
			// byte literal 'x'
			if i+2 < len(s) && s[i+2] == '\'' {
				toks = append(toks, tok{"int", fmt.Sprint(int(s[i+1])), i})
				i += 3
			} else if i+3 < len(s) && s[i+1] == '\\' && s[i+3] == '\'' {
				v := 0
				switch s[i+2] {
				case 'n':
					v = 10
				case 'r':
					v = 13
				case 't':
					v = 9
				case '\\':
					v = 92
				case '\'':
					v = 39
				}
				toks = append(toks, tok{"int", fmt.Sprint(v), i})
				i += 4
			} else {
				return nil, fmt.Errorf("bad char literal at %d", i)
			}
		default:
			ops := []string{"<==>", "==>", "::", "==", "!=", "<=", ">=", "&&", "||", "++", "(", ")", "[", "]", ",", ".", ":", "<", ">", "+", "-", "*", "/", "%", "!", "?"}
			matched := false
			for _, op := range ops {
				if strings.HasPrefix(s[i:], op) {
					toks = append(toks, tok{"op", op, i})
					i += len(op)
					matched = true
					break
				}
			}
			if !matched {
				return nil, fmt.Errorf("unexpected character %q at %d", c, i)
			}
		}
	}
	toks = append(toks, tok{"eof", "", len(s)})
	return toks, nil
}

type sparser struct {
	toks []tok
	p    int
	src  string
}

func ParseSpec(s string) (e *SExpr, err error) {
	toks, err := lexSpec(s)
	if err != nil {
		return nil, fmt.Errorf("%v in %q", err, s)
	}
	ps := &sparser{toks: toks, src: s}
	defer func() {
		if r := recover(); r != nil {
			err = fmt.Errorf("spec parse error: %v in %q", r, s)
		}
	}()
	e = ps.expr(0)
	if ps.peek().kind != "eof" {
		panic(fmt.Sprintf("trailing tokens at %d (%q)", ps.peek().pos, ps.peek().text))
	}
	return e, nil
}

func (p *sparser) peek() tok { return p.toks[p.p] }
func (p *sparser) next() tok { t := p.toks[p.p]; p.p++; return t }
func (p *sparser) accept(op string) bool {
	if p.peek().kind == "op" && p.peek().text == op {
		p.p++
		return true
	}
	return false
}
func (p *sparser) expect(op string) {
	if !p.accept(op) {
		panic(fmt.Sprintf("expected %q at %d, got %q", op, p.peek().pos, p.peek().text))
	}
}

// precedence: <==> 1, ==> 2 (right), || 3, && 4, comparisons 5, ++ + - 6, * / % 7
var binPrec = map[string]int{"<==>": 1, "==>": 2, "||": 3, "&&": 4, "==": 5, "!=": 5, "<": 5, "<=": 5, ">": 5, ">=": 5, "+": 6, "-": 6, "++": 6, "*": 7, "/": 7, "%": 7}

func (p *sparser) expr(min int) *SExpr {
	// quantifiers and let bind loosest
	if p.peek().kind == "id" && (p.peek().text == "forall" || p.peek().text == "exists") {
		q := p.next()
		var vars []SVar
		for {
			n := p.next()
			if n.kind != "id" {
				panic("binder name expected")
			}
			ty := p.typeName()
			vars = append(vars, SVar{n.text, ty})
			if !p.accept(",") {
				break
			}
		}
		p.expect("::")
		body := p.expr(0)
		return &SExpr{Op: q.text, Vars: vars, Args: []*SExpr{body}, Pos: q.pos}
	}
	if p.peek().kind == "id" && p.peek().text == "let" {
		q := p.next()
		n := p.next()
		p.expect("==")
		v := p.expr(3)
		p.expect("::")
		body := p.expr(0)
		return &SExpr{Op: "let", Name: n.text, Args: []*SExpr{v, body}, Pos: q.pos}
	}
	lhs := p.unary()
	for {
		t := p.peek()
		if t.kind != "op" {
			break
		}
		if t.text == "?" && min <= 0 {
			p.next()
			a := p.expr(1)
			p.expect(":")
			b := p.expr(0)
			lhs = &SExpr{Op: "ite", Args: []*SExpr{lhs, a, b}, Pos: t.pos}
			continue
		}
		prec, ok := binPrec[t.text]
		if !ok || prec < min {
			break
		}
		p.next()
		var rhs *SExpr
		if t.text == "==>" {
			rhs = p.expr(prec) // right assoc
		} else {
			rhs = p.expr(prec + 1)
		}
		lhs = &SExpr{Op: "binop", Name: t.text, Args: []*SExpr{lhs, rhs}, Pos: t.pos}
	}
	return lhs
}

func (p *sparser) typeName() string {
	// int | string | bool | any | *Name | Name | seq<type>
	var b strings.Builder
	if p.accept("*") {
		b.WriteString("*")
	}
	t := p.next()
	if t.kind != "id" {
		panic(fmt.Sprintf("type expected at %d", t.pos))
	}
	b.WriteString(t.text)
	if t.text == "seq" {
		p.expect("<")
		inner := p.typeName()
		p.expect(">")
		b.WriteString("<" + inner + ">")
	}
	return b.String()
}

func (p *sparser) unary() *SExpr {
	t := p.peek()
	if t.kind == "op" && (t.text == "!" || t.text == "-") {
		p.next()
		x := p.unary()
		return &SExpr{Op: "unop", Name: t.text, Args: []*SExpr{x}, Pos: t.pos}
	}
	return p.postfix(p.primary())
}

func (p *sparser) primary() *SExpr {
	t := p.next()
	switch t.kind {
	case "int":
		return &SExpr{Op: "int", Name: t.text, Pos: t.pos}
	case "str":
		return &SExpr{Op: "str", Name: t.text, Pos: t.pos}
	case "id":
		switch t.text {
		case "true", "false":
			return &SExpr{Op: "bool", Name: t.text, Pos: t.pos}
		case "nil":
			return &SExpr{Op: "nil", Pos: t.pos}
		}
		if p.peek().kind == "op" && p.peek().text == "(" {
			p.next()
			var args []*SExpr
			if !p.accept(")") {
				for {
					args = append(args, p.expr(0))
					if p.accept(")") {
						break
					}
					p.expect(",")
				}
			}
			if t.text == "old" || t.text == "prev" {
				if len(args) != 1 {
					panic(t.text + " takes one argument")
				}
				return &SExpr{Op: t.text, Args: args, Pos: t.pos}
			}
			return &SExpr{Op: "call", Name: t.text, Args: args, Pos: t.pos}
		}
		return &SExpr{Op: "id", Name: t.text, Pos: t.pos}
	case "op":
		if t.text == "(" {
			e := p.expr(0)
			p.expect(")")
			return e
		}
	}
	panic(fmt.Sprintf("unexpected token %q at %d", t.text, t.pos))
}

func (p *sparser) postfix(e *SExpr) *SExpr {
	for {
		t := p.peek()
		if t.kind != "op" {
			return e
		}
		switch t.text {
		case ".":
			p.next()
			n := p.next()
			if n.kind != "id" {
				panic("field name expected")
			}
			e = &SExpr{Op: "field", Name: n.text, Args: []*SExpr{e}, Pos: t.pos}
		case "[":
			p.next()
			var lo, hi *SExpr
			if p.accept(":") {
				if !(p.peek().kind == "op" && p.peek().text == "]") {
					hi = p.expr(0)
				}
				p.expect("]")
				e = &SExpr{Op: "slice", Args: []*SExpr{e, lo, hi}, Pos: t.pos}
				continue
			}
			lo = p.expr(0)
			if p.accept(":") {
				if !(p.peek().kind == "op" && p.peek().text == "]") {
					hi = p.expr(0)
				}
				p.expect("]")
				e = &SExpr{Op: "slice", Args: []*SExpr{e, lo, hi}, Pos: t.pos}
				continue
			}
			p.expect("]")
			e = &SExpr{Op: "index", Args: []*SExpr{e, lo}, Pos: t.pos}
		default:
			return e
		}
	}
}

func (e *SExpr) String() string {
	if e == nil {
		return ""
	}
	switch e.Op {
	case "id", "int":
		return e.Name
	case "str":
		return fmt.Sprintf("%q", e.Name)
	case "bool":
		return e.Name
	case "nil":
		return "nil"
	case "call":
		parts := []string{}
		for _, a := range e.Args {
			parts = append(parts, a.String())
		}
		return e.Name + "(" + strings.Join(parts, ", ") + ")"
	case "old", "prev":
		return e.Op + "(" + e.Args[0].String() + ")"
	case "field":
		return e.Args[0].String() + "." + e.Name
	case "index":
		return e.Args[0].String() + "[" + e.Args[1].String() + "]"
	case "slice":
		return e.Args[0].String() + "[" + e.Args[1].String() + ":" + e.Args[2].String() + "]"
	case "unop":
		return e.Name + e.Args[0].String()
	case "binop":
		return "(" + e.Args[0].String() + " " + e.Name + " " + e.Args[1].String() + ")"
	case "forall", "exists":
		vs := []string{}
		for _, v := range e.Vars {
			vs = append(vs, v.Name+" "+v.Type)
		}
		return "(" + e.Op + " " + strings.Join(vs, ", ") + " :: " + e.Args[0].String() + ")"
	case "ite":
		return "(" + e.Args[0].String() + " ? " + e.Args[1].String() + " : " + e.Args[2].String() + ")"
	case "let":
		return "(let " + e.Name + " == " + e.Args[0].String() + " :: " + e.Args[1].String() + ")"
	}
	return "?"
}
