package main

import (
	"fmt"
	"go/token"
	"go/types"
	"sort"
	"strings"

	"golang.org/x/tools/go/ssa"
)

// Exec holds everything shared while generating VCs for one top-level function.
type Exec struct {
	w      *World
	vc     *VC
	prog   *ssa.Program
	pkg    *ssa.Package
	cs     *ContractSet
	sv     SVReg
	spec   *SpecLib
	safety bool
	oblN   map[string]int
	mods   *ModAnalysis
	depth  int
	topFn  *ssa.Function
	// options
	maxInline  int
	useGInv    bool
	lockCheck  bool
	freshRefs  map[string]bool // references allocated while generating the current VC
	fieldOf    map[string][2]string
	inFieldInv bool
}

type retSite struct {
	reach string
	vals  []*Val
	st    *State
}

type loopInfo struct {
	header  *ssa.BasicBlock
	ordinal int
	body    map[int]bool
	backs   []*ssa.BasicBlock
	spec    *LoopSpec
	rangeIx *ssa.Phi   // rangeindex phi, if a slice range loop
	mapIter *ssa.Range // if a map range loop
	visited string     // state var name for ghost visited set
	headSt  *State     // state at the head of an arbitrary iteration (after havoc + invariant)
	sel     *ssa.Select
}

type Frame struct {
	ex       *Exec
	fn       *ssa.Function
	key      string
	vals     map[ssa.Value]*Val
	reach    map[int]string
	out      map[int]*State
	edge     map[[2]int]string
	rets     []retSite
	defers   []*ssa.Defer
	loops    map[int]*loopInfo
	contract *Contract
	top      bool
	entrySt  *State
	names    map[string]ssa.Value // single-definition named locals
	multi    map[string][]ssa.Value // named locals with several defining values (resolved per loop by dominance)
	params   map[string]*Val
	pending  []func() // step obligations, generated once every block has been executed
	cur      *State   // state while executing a block
	curReach string
	curBlock *ssa.BasicBlock
}

func (ex *Exec) fnKey(fn *ssa.Function) string {
	return fn.RelString(ex.pkg.Pkg)
}

func (ex *Exec) posOf(p token.Pos) string {
	if !p.IsValid() {
		return ""
	}
	ps := ex.prog.Fset.Position(p)
	f := ps.Filename
	if i := strings.LastIndex(f, "/"); i >= 0 {
		f = f[i+1:]
	}
	return fmt.Sprintf("%s:%d", f, ps.Line)
}

func (ex *Exec) oblName(base string) string {
	ex.oblN[base]++
	if ex.oblN[base] == 1 {
		return base
	}
	return fmt.Sprintf("%s#%d", base, ex.oblN[base])
}

// computeLoops finds natural loops of fn.
func computeLoops(fn *ssa.Function) map[int]*loopInfo {
	loops := map[int]*loopInfo{}
	for _, b := range fn.Blocks {
		for _, s := range b.Succs {
			if s.Dominates(b) {
				li := loops[s.Index]
				if li == nil {
					li = &loopInfo{header: s, body: map[int]bool{s.Index: true}}
					loops[s.Index] = li
				}
				li.backs = append(li.backs, b)
				// collect body: blocks reaching b without passing through s
				stack := []*ssa.BasicBlock{b}
				for len(stack) > 0 {
					x := stack[len(stack)-1]
					stack = stack[:len(stack)-1]
					if li.body[x.Index] {
						continue
					}
					li.body[x.Index] = true
					for _, p := range x.Preds {
						stack = append(stack, p)
					}
				}
			}
		}
	}
	hs := []int{}
	for h := range loops {
		hs = append(hs, h)
	}
	sort.Ints(hs)
	for i, h := range hs {
		loops[h].ordinal = i
		for _, ins := range loops[h].header.Instrs {
			if phi, ok := ins.(*ssa.Phi); ok && phi.Comment == "rangeindex" {
				loops[h].rangeIx = phi
			}
			if nx, ok := ins.(*ssa.Next); ok {
				if r, ok := nx.Iter.(*ssa.Range); ok {
					if _, isMap := r.X.Type().Underlying().(*types.Map); isMap {
						loops[h].mapIter = r
					}
				}
			}
		}
	}
	return loops
}

// topoOrder returns blocks in an order where all non-back-edge predecessors come first.
func topoOrder(fn *ssa.Function) []*ssa.BasicBlock {
	seen := map[int]bool{}
	var post []*ssa.BasicBlock
	var dfs func(b *ssa.BasicBlock)
	dfs = func(b *ssa.BasicBlock) {
		seen[b.Index] = true
		for _, s := range b.Succs {
			if s.Dominates(b) { // back edge
				continue
			}
			if !seen[s.Index] {
				dfs(s)
			}
		}
		post = append(post, b)
	}
	dfs(fn.Blocks[0])
	for i, j := 0, len(post)-1; i < j; i, j = i+1, j-1 {
		post[i], post[j] = post[j], post[i]
	}
	return post
}

// execFunction symbolically executes fn and returns merged results and out state.
func (ex *Exec) execFunction(fn *ssa.Function, args []*Val, bindings []*Val, st *State, reach string, top bool, contract *Contract) ([]*Val, *State, string) {
	if len(fn.Blocks) == 0 {
		panic("no body for " + fn.String())
	}
	fr := &Frame{ex: ex, fn: fn, key: ex.fnKey(fn), vals: map[ssa.Value]*Val{}, reach: map[int]string{}, out: map[int]*State{},
		edge: map[[2]int]string{}, top: top, contract: contract, entrySt: st.Clone(), names: map[string]ssa.Value{}, params: map[string]*Val{}}
	for i, p := range fn.Params {
		fr.vals[p] = args[i]
		fr.params[p.Name()] = args[i]
	}
	for i, fv := range fn.FreeVars {
		if i < len(bindings) {
			fr.vals[fv] = bindings[i]
		}
	}
	fr.loops = computeLoops(fn)
	if contract != nil {
		for ord, ls := range contract.Loops {
			found := false
			for _, li := range fr.loops {
				if li.ordinal == ord {
					li.spec = ls
					found = true
				}
			}
			if !found && top {
				ex.vc.oblige("structure", ex.oblName(fr.key+"/loop-missing@"+fmt.Sprint(ord)), "true", "false", "contract names loop "+fmt.Sprint(ord)+" which does not exist", "", nil)
			}
		}
	}
	fr.collectNames()
	order := topoOrder(fn)
	for _, b := range order {
		fr.execBlock(b, st, reach)
	}
	for _, p := range fr.pending {
		p()
	}
	// merge returns
	if len(fr.rets) == 0 {
		// function never returns normally (infinite loop / panic)
		return nil, st.Clone(), "false"
	}
	conds := []string{}
	states := []*State{}
	for _, r := range fr.rets {
		conds = append(conds, r.reach)
		states = append(states, r.st)
	}
	outSt := ex.mergeStates(conds, states)
	nres := len(fr.rets[0].vals)
	results := make([]*Val, nres)
	for i := 0; i < nres; i++ {
		v := fr.rets[len(fr.rets)-1].vals[i]
		t := v.T
		same := true
		for j := len(fr.rets) - 2; j >= 0; j-- {
			if fr.rets[j].vals[i].T != t {
				same = false
			}
			t = ite(conds[j], fr.rets[j].vals[i].T, t)
		}
		if same {
			results[i] = v
		} else {
			results[i] = &Val{T: ex.vc.define(fr.key+"_res", v.S, t), S: v.S, GoT: v.GoT}
		}
	}
	retReach := or(conds...)
	return results, outSt, retReach
}

// collectNames records named locals that have a single defining value (via DebugRef).
func (fr *Frame) collectNames() {
	count := map[string]int{}
	val := map[string]ssa.Value{}
	for _, b := range fr.fn.Blocks {
		for _, ins := range b.Instrs {
			if d, ok := ins.(*ssa.DebugRef); ok && !d.IsAddr {
				obj := d.Object()
				if obj == nil {
					continue
				}
				if v, ok := obj.(*types.Var); ok {
					n := v.Name()
					if fr.multi == nil {
						fr.multi = map[string][]ssa.Value{}
					}
					dup := false
					for _, pv := range fr.multi[n] {
						if pv == d.X {
							dup = true
						}
					}
					if !dup {
						fr.multi[n] = append(fr.multi[n], d.X)
					}
					if prev, ok := val[n]; !ok || prev != d.X {
						if !ok {
							count[n] = 1
						} else {
							count[n]++
						}
						val[n] = d.X
					}
				}
			}
		}
	}
	for n, c := range count {
		if c == 1 {
			fr.names[n] = val[n]
		}
	}
}

func (fr *Frame) isBackEdge(from, to *ssa.BasicBlock) bool {
	return to.Dominates(from)
}

func (fr *Frame) execBlock(b *ssa.BasicBlock, entrySt *State, entryReach string) {
	ex := fr.ex
	vc := ex.vc
	var st *State
	var reach string
	li := fr.loops[b.Index]
	// incoming forward edges
	var conds []string
	var states []*State
	var preds []*ssa.BasicBlock
	if b.Index == 0 {
		st = entrySt.Clone()
		reach = entryReach
	} else {
		for _, p := range b.Preds {
			if fr.isBackEdge(p, b) {
				continue
			}
			c, ok := fr.edge[[2]int{p.Index, b.Index}]
			if !ok {
				continue // unreachable pred (e.g. recover block)
			}
			conds = append(conds, c)
			states = append(states, fr.out[p.Index])
			preds = append(preds, p)
		}
		if len(conds) == 0 {
			fr.reach[b.Index] = "false"
			fr.out[b.Index] = entrySt.Clone()
			// still need values for instructions? unreachable; skip
			return
		}
		reach = vc.define(fmt.Sprintf("reach_%s_b%d", sanitize(fr.key), b.Index), SBool, or(conds...))
		st = ex.mergeStates(conds, states)
	}
	fr.reach[b.Index] = reach
	fr.cur = st
	fr.curReach = reach
	fr.curBlock = b
	// cover: every block the model can reach must be satisfiable - a contradictory set of assumptions
	// (engine or contract fault) would otherwise discharge everything in it vacuously
	if fr.top && b.Index != 0 && reach != "true" {
		o := ex.vc.oblige("vacuity", fmt.Sprintf("%s/vacuity:block-%d-reachable", fr.key, b.Index), reach, "false", "block "+b.Comment+" is reachable under the assumptions", ex.posOf(firstPos(b)), nil)
		o.Expect = "sat"
	}

	if li != nil {
		fr.enterLoop(li, preds, conds, states)
	} else {
		// phis
		for _, ins := range b.Instrs {
			phi, ok := ins.(*ssa.Phi)
			if !ok {
				break
			}
			var vals []*Val
			var cs []string
			for i, p := range b.Preds {
				c, ok := fr.edge[[2]int{p.Index, b.Index}]
				if !ok {
					continue
				}
				vals = append(vals, fr.val(phi.Edges[i]))
				cs = append(cs, c)
			}
			fr.vals[phi] = fr.mergeVals(phi, cs, vals)
		}
	}

	for _, ins := range b.Instrs {
		if _, ok := ins.(*ssa.Phi); ok {
			continue
		}
		fr.execInstr(ins)
	}
	fr.out[b.Index] = fr.cur
}

func (fr *Frame) mergeVals(phi *ssa.Phi, conds []string, vals []*Val) *Val {
	ex := fr.ex
	s := ex.w.SortOf(phi.Type())
	if len(vals) == 0 {
		return &Val{T: ex.w.Zero(s), S: s, GoT: phi.Type()}
	}
	if len(vals) == 1 {
		return vals[0]
	}
	allSame := true
	for _, v := range vals {
		if v.T != vals[0].T {
			allSame = false
		}
	}
	if allSame {
		if b := mergeBorrow(conds, vals); b != nil && vals[0].Borrow == nil {
			nv := *vals[0]
			nv.Borrow = b
			return &nv
		}
		return vals[0]
	}
	if s.K == KTuple {
		ex.vc.unsupported("phi of tuple")
		return vals[0]
	}
	t := vals[len(vals)-1].T
	for i := len(vals) - 2; i >= 0; i-- {
		t = ite(conds[i], vals[i].T, t)
	}
	name := phi.Comment
	if name == "" {
		name = phi.Name()
	}
	r := &Val{T: ex.vc.define(name, s, t), S: s, GoT: phi.Type()}
	r.Borrow = mergeBorrow(conds, vals)
	// keep provenance/closure if identical across edges
	if vals[0].Prov != nil {
		same := true
		for _, v := range vals {
			if v.Prov == nil || !samePath(v.Prov, vals[0].Prov) {
				same = false
			}
		}
		if same {
			r.Prov = vals[0].Prov
		}
	}
	return r
}

// mergeBorrow joins the borrow descriptors of the values meeting at a phi (nil if none is borrowed).
func mergeBorrow(conds []string, vals []*Val) *Borrow {
	any := false
	for _, v := range vals {
		if v.Borrow != nil {
			any = true
		}
	}
	if !any {
		return nil
	}
	get := func(v *Val) (string, string, string) {
		if v.Borrow == nil {
			return "false", "0", "0"
		}
		return v.Borrow.Active, v.Borrow.Reader, v.Borrow.Epoch
	}
	a, r, e := get(vals[len(vals)-1])
	for i := len(vals) - 2; i >= 0; i-- {
		ai, ri, ei := get(vals[i])
		a, r, e = ite(conds[i], ai, a), ite(conds[i], ri, r), ite(conds[i], ei, e)
	}
	pool := false
	for _, v := range vals {
		if v.Borrow != nil && v.Borrow.Pool {
			pool = true
		}
	}
	return &Borrow{Active: a, Reader: r, Epoch: e, Pool: pool}
}

// useBytes: reading (or appending to) a byte slice that may be borrowed from a bufio.Reader requires that the
// reader has not been read since the slice was handed out.
func (fr *Frame) useBytes(ins ssa.Instruction, v *Val, what string) {
	if v == nil || v.Borrow == nil {
		return
	}
	ex := fr.ex
	re := ex.get(fr.cur, fr.ghost("RE"))
	g := imp(v.Borrow.Active, eq("(select "+re+" "+v.Borrow.Reader+")", v.Borrow.Epoch))
	why := "a slice returned by bufio.Reader.ReadLine is used only before the next read on that reader: " + what
	if v.Borrow.Pool {
		why = "a buffer taken from the pool is not used after it was handed back: " + what
	}
	ex.vc.oblige("borrow", ex.oblName(fr.key+"/borrow-valid@"+what), fr.curReach, g, why, ex.posOf(ins.Pos()), nil)
	ex.vc.assume(imp(fr.curReach, g))
}

// ownBytes: a byte slice that outlives the current read (stored in the heap, carried around a loop, returned
// without a borrowed-result declaration, sent on a channel) must not alias a reader's buffer.
func (fr *Frame) ownBytes(ins ssa.Instruction, v *Val, what string) {
	if v == nil || v.Borrow == nil {
		return
	}
	if v.Borrow.Pool {
		fr.useBytes(ins, v, what) // handing a pool buffer on is fine as long as it has not been released
		return
	}
	ex := fr.ex
	g := not(v.Borrow.Active)
	ex.vc.oblige("borrow", ex.oblName(fr.key+"/borrow-escape@"+what), fr.curReach, g, "a slice returned by bufio.Reader.ReadLine does not escape: "+what, ex.posOf(ins.Pos()), nil)
	ex.vc.assume(imp(fr.curReach, g))
}

func samePath(a, b *LPath) bool {
	if a == nil || b == nil {
		return a == b
	}
	if a.Kind != b.Kind || a.Ref != b.Ref || a.Struct != b.Struct || a.Field != b.Field || a.Idx != b.Idx || a.Var != b.Var {
		return false
	}
	return samePath(a.Base, b.Base)
}

// loopEnv builds the spec environment for evaluating loop invariants, with the header
// phis bound to the given values.
func (fr *Frame) loopEnv(li *loopInfo, phiVals map[*ssa.Phi]*Val, st *State) *Env {
	env := fr.baseEnv(st)
	for phi, v := range phiVals {
		if phi.Comment != "" && phi.Comment != "rangeindex" {
			env.vars[phi.Comment] = v
		}
		env.vars["$"+phi.Name()] = v
	}
	if li.rangeIx != nil {
		if v, ok := phiVals[li.rangeIx]; ok {
			env.vars["$i"] = &Val{T: "(+ " + v.T + " 1)", S: SInt}
		}
	}
	if li.visited != "" {
		env.vars["$visited"] = &Val{T: fr.ex.get(st, li.visited), S: fr.ex.svSort(li.visited)}
	}
	// named locals defined outside the loop that dominate the header
	for n, v := range fr.names {
		if _, ok := env.vars[n]; ok {
			continue
		}
		if ins, ok := v.(ssa.Instruction); ok {
			if ins.Block() == nil || li.body[ins.Block().Index] || !ins.Block().Dominates(li.header) {
				continue
			}
		}
		if vv, ok := fr.vals[v]; ok && vv.T != "" {
			env.vars[n] = vv
		}
	}
	// a local with several definitions: the definition that dominates the header and is dominated by every
	// other dominating definition (the value the variable has when the loop is entered)
	for n, cands := range fr.multi {
		if _, ok := env.vars[n]; ok || len(cands) < 2 {
			continue
		}
		var best ssa.Instruction
		ambiguous := false
		for _, c := range cands {
			ins, ok := c.(ssa.Instruction)
			if !ok || ins.Block() == nil || li.body[ins.Block().Index] || !ins.Block().Dominates(li.header) {
				continue
			}
			switch {
			case best == nil:
				best = ins
			case best.Block() == ins.Block():
				ambiguous = true
			case best.Block().Dominates(ins.Block()):
				best = ins
			case ins.Block().Dominates(best.Block()):
			default:
				ambiguous = true
			}
		}
		if best != nil && !ambiguous {
			if vv, ok := fr.vals[best.(ssa.Value)]; ok && vv.T != "" {
				env.vars[n] = vv
			}
		}
	}
	return env
}

func (fr *Frame) baseEnv(st *State) *Env {
	env := &Env{ex: fr.ex, vars: map[string]*Val{}, cur: st, old: fr.entrySt, fr: fr}
	for n, v := range fr.params {
		env.vars[n] = v
	}
	return env
}

func (fr *Frame) enterLoop(li *loopInfo, preds []*ssa.BasicBlock, conds []string, states []*State) {
	ex := fr.ex
	vc := ex.vc
	b := li.header
	phis := []*ssa.Phi{}
	for _, ins := range b.Instrs {
		if phi, ok := ins.(*ssa.Phi); ok {
			phis = append(phis, phi)
		} else {
			break
		}
	}
	if li.mapIter != nil {
		// ghost visited set for map iteration
		ms := ex.w.SortOf(li.mapIter.X.Type())
		li.visited = ex.regSV(fmt.Sprintf("V_%s_loop%d", sanitize(fr.key), li.ordinal), SArr(ms.Key, SBool))
	}
	spec := li.spec
	vc.comment(fmt.Sprintf("loop %d of %s (header b%d)", li.ordinal, fr.key, b.Index))
	// 1. invariant holds on entry
	if spec != nil {
		for pi, p := range preds {
			phiVals := map[*ssa.Phi]*Val{}
			for _, phi := range phis {
				for i, pp := range b.Preds {
					if pp == p {
						phiVals[phi] = fr.val(phi.Edges[i])
					}
				}
			}
			stp := states[pi].Clone()
			if li.visited != "" {
				ex.set(stp, li.visited, "((as const "+ex.svSort(li.visited).SMT()+") false)")
				states[pi] = stp
			}
			env := fr.loopEnv(li, phiVals, stp)
			for k, inv := range spec.Invariants {
				g, okInv := ex.trInvariant(inv, env)
				if !okInv {
					continue
				}
				label := inv.Label
				if label == "" {
					label = fmt.Sprint(k)
				}
				vc.oblige("inv-entry", ex.oblName(fmt.Sprintf("%s/inv-entry@loop%d:%s", fr.key, li.ordinal, label)), conds[pi], g, inv.Src, ex.posOf(b.Instrs[0].Pos()), nil)
			}
		}
		if li.visited != "" {
			fr.cur = ex.mergeStates(conds, states)
		}
	} else if li.visited != "" {
		ex.set(fr.cur, li.visited, "((as const "+ex.svSort(li.visited).SMT()+") false)")
	}
	// 2. havoc loop-modified state and phis
	mods, all := ex.mods.LoopMods(fr, li)
	if all {
		ex.havocAll(fr.cur)
	} else {
		mods = allocFirst(mods)
		objMods := ex.mods.LoopObjMods(fr, li, mods)
		allocOnly := ex.mods.LoopAllocOnly(fr, li)
		allocAtEntry := ex.get(fr.cur, "alloc")
		for _, m := range mods {
			if allocOnly[m] && ex.svSort(m).K == KArr && ex.svSort(m).Key.K == KInt {
				// written only at objects allocated inside the loop: older objects keep their values
				old := ex.get(fr.cur, m)
				n := ex.havoc(fr.cur, m)
				vc.assume("(forall ((r Int)) (! (=> (<= r " + allocAtEntry + ") (= (select " + n + " r) (select " + old + " r))) :pattern ((select " + n + " r))))")
				continue
			}
			if m == "alloc" {
				old := ex.get(fr.cur, "alloc")
				n := ex.havoc(fr.cur, "alloc")
				vc.assume("(>= " + n + " " + old + ")")
				continue
			}
			om := objMods[m]
			s := ex.svSort(m)
			if om != nil && !om.whole && len(om.objs) > 0 && s.K == KArr {
				// only the listed (loop-invariant) objects are written: quantifier-free frame
				t := ex.get(fr.cur, m)
				var fvs []string
				for k, o := range om.objs {
					fv := vc.fresh(fmt.Sprintf("%s_loop%d_%d", m, li.ordinal, k), s.Elem)
					t = "(store " + t + " " + o + " " + fv + ")"
					fvs = append(fvs, fv)
				}
				ex.set(fr.cur, m, t)
				for k, o := range om.objs {
					ex.assumeFieldInvAt(fr.cur, m, o, fvs[k])
				}
				continue
			}
			ex.havoc(fr.cur, m)
		}
	}
	if li.visited != "" {
		ex.havoc(fr.cur, li.visited)
	}
	// allocation counter only grows
	if _, touched := fr.cur.vars["alloc"]; touched || all {
		// handled via mods containing alloc
	}
	phiVals := map[*ssa.Phi]*Val{}
	for _, phi := range phis {
		s := ex.w.SortOf(phi.Type())
		name := phi.Comment
		if name == "" {
			name = phi.Name()
		}
		v := &Val{T: vc.fresh(name, s), S: s, GoT: phi.Type()}
		// a loop-carried byte slice is borrowed only in the first iteration (back edges must carry owned
		// slices - checked there); whether this is the first iteration is left open
		var evals []*Val
		var econds []string
		for pi, p := range preds {
			for i, pp := range b.Preds {
				if pp == p {
					evals = append(evals, fr.val(phi.Edges[i]))
					econds = append(econds, conds[pi])
				}
			}
		}
		if eb := mergeBorrow(econds, evals); eb != nil {
			first := vc.fresh("first_iter", SBool)
			v.Borrow = &Borrow{Active: and(first, eb.Active), Reader: eb.Reader, Epoch: eb.Epoch, Pool: eb.Pool}
		}
		// provenance survives if all edges agree syntactically (e.g. ranged slice)
		fr.vals[phi] = v
		phiVals[phi] = v
	}
	// alloc monotone across iterations
	preAlloc := "0"
	if len(states) > 0 {
		preAlloc = ex.get(ex.mergeStatesNoDefine(states), "alloc")
	}
	_ = preAlloc
	// 3. assume invariant
	if spec != nil {
		env := fr.loopEnv(li, phiVals, fr.cur)
		for _, inv := range spec.Invariants {
			if g, okInv := ex.trInvariant(inv, env); okInv {
				vc.assume(imp(fr.curReach, g))
			}
		}
	}
	li.headSt = fr.cur.Clone()
	// built-in facts about range index
	if li.rangeIx != nil {
		v := phiVals[li.rangeIx]
		vc.assume(imp(fr.curReach, "(>= "+v.T+" (- 1))"))
	}
}

func (ex *Exec) mergeStatesNoDefine(states []*State) *State { return states[0] }

// checkBackEdge emits inv-step obligations for edge from->header.
func (fr *Frame) checkBackEdge(from *ssa.BasicBlock, li *loopInfo, cond string) {
	ex := fr.ex
	spec := li.spec
	for _, ins := range li.header.Instrs {
		phi, ok := ins.(*ssa.Phi)
		if !ok {
			break
		}
		for i, pp := range li.header.Preds {
			if pp == from {
				if bv := fr.val(phi.Edges[i]); bv.Borrow != nil {
					saveReach := fr.curReach
					fr.curReach = cond
					fr.ownBytes(from.Instrs[len(from.Instrs)-1], bv, "carried around loop "+fmt.Sprint(li.ordinal))
					fr.curReach = saveReach
				}
			}
		}
	}
	if spec == nil {
		return
	}
	b := li.header
	phiVals := map[*ssa.Phi]*Val{}
	for _, ins := range b.Instrs {
		phi, ok := ins.(*ssa.Phi)
		if !ok {
			break
		}
		for i, pp := range b.Preds {
			if pp == from {
				phiVals[phi] = fr.val(phi.Edges[i])
			}
		}
	}
	// step clauses: relation between iteration head and iteration end; every named local of the
	// body is visible (the clause must guard on the path that defines it), $case = select index
	if len(spec.Steps) > 0 {
		stAtEdge := fr.cur.Clone()
		fr.pending = append(fr.pending, func() {
			senv := fr.baseEnv(stAtEdge)
			senv.prev = li.headSt
			for n, v := range fr.names {
				if vv, ok := fr.vals[v]; ok && vv.T != "" {
					if _, exists := senv.vars[n]; !exists {
						senv.vars[n] = vv
					}
				}
			}
			for _, bb := range fr.fn.Blocks {
				if !li.body[bb.Index] {
					continue
				}
				for _, ins := range bb.Instrs {
					if sel, ok := ins.(*ssa.Select); ok {
						if sv, ok := fr.vals[sel]; ok && sv.Tup != nil {
							senv.vars["$case"] = sv.Tup[0]
						}
					}
				}
			}
			for k, stp := range spec.Steps {
				label := stp.Label
				if label == "" {
					label = fmt.Sprint(k)
				}
				g := ex.trBool(stp.Expr, senv)
				ex.vc.oblige("step", ex.oblName(fmt.Sprintf("%s/step@loop%d:%s", fr.key, li.ordinal, label)), cond, g, stp.Src, ex.posOf(from.Instrs[len(from.Instrs)-1].Pos()), nil)
			}
		})
	}
	env := fr.loopEnv(li, phiVals, fr.cur)
	for k, inv := range spec.Invariants {
		g, okInv := ex.trInvariant(inv, env)
		if !okInv {
			continue
		}
		label := inv.Label
		if label == "" {
			label = fmt.Sprint(k)
		}
		ex.vc.oblige("inv-step", ex.oblName(fmt.Sprintf("%s/inv-step@loop%d:%s", fr.key, li.ordinal, label)), cond, g, inv.Src, ex.posOf(from.Instrs[len(from.Instrs)-1].Pos()), nil)
	}
}

// val returns the model value of an SSA value.
func (fr *Frame) val(v ssa.Value) *Val {
	if r, ok := fr.vals[v]; ok {
		return r
	}
	ex := fr.ex
	switch c := v.(type) {
	case *ssa.Const:
		r := ex.constVal(c)
		return r
	case *ssa.Global:
		name := "G_" + sanitize(c.Pkg.Pkg.Name()+"_"+c.Name())
		elem := c.Type().(*types.Pointer).Elem()
		s := ex.w.SortOf(elem)
		ex.regSV(name, s)
		r := &Val{S: SRef("cell"), Ptr: &LPath{Kind: "global", Var: name, Sort: s, LibErr: c.Pkg != ex.pkg && elem.String() == "error"}, GoT: c.Type(), T: "0"}
		fr.vals[v] = r
		return r
	case *ssa.Function:
		r := &Val{T: ex.vc.fresh("fnref", SRef("func")), S: SRef("func"), Clo: &Closure{Fn: c}, GoT: c.Type()}
		ex.vc.assume("(> " + r.T + " 0)")
		fr.vals[v] = r
		return r
	case *ssa.Builtin:
		return &Val{T: "0", S: SRef("func")}
	}
	// value from an unreachable/unsupported definition: havoc
	s := ex.w.SortOf(v.Type())
	if s.K == KTuple {
		r := &Val{S: s}
		for _, ts := range s.Tuple {
			r.Tup = append(r.Tup, &Val{T: ex.vc.fresh("undef", ts), S: ts})
		}
		fr.vals[v] = r
		return r
	}
	r := &Val{T: ex.vc.fresh("undef_"+v.Name(), s), S: s, GoT: v.Type()}
	fr.vals[v] = r
	return r
}

// allocFirst moves the allocation counter to the front: heap-closure assumptions on havocked field
// heaps must refer to the allocation top after the havoc.
func allocFirst(vars []string) []string {
	out := []string{}
	for _, v := range vars {
		if v == "alloc" {
			out = append(out, v)
		}
	}
	for _, v := range vars {
		if v != "alloc" {
			out = append(out, v)
		}
	}
	return out
}

func firstPos(b *ssa.BasicBlock) token.Pos {
	for _, ins := range b.Instrs {
		if ins.Pos().IsValid() {
			return ins.Pos()
		}
	}
	return token.NoPos
}

// trInvariant translates a loop invariant. In a safety or lock-check sweep an invariant that names a local which no longer
// exists (the loop was rewritten) is dropped with a note instead of stopping the whole function: the safety
// obligations that needed it then fail by name, which is the useful report.
func (ex *Exec) trInvariant(inv Clause, env *Env) (g string, ok bool) {
	if !ex.safety && !ex.lockCheck {
		return ex.trBool(inv.Expr, env), true
	}
	defer func() {
		if r := recover(); r != nil {
			if se, isSpec := r.(specErr); isSpec {
				ex.vc.note("loop invariant dropped in the safety sweep (" + se.msg + "): " + inv.Src)
				g, ok = "", false
				return
			}
			panic(r)
		}
	}()
	return ex.trBool(inv.Expr, env), true
}
