package main

import (
	"fmt"
	"go/types"
	"sort"
	"strings"
)

// SortKind enumerates the SMT-level sorts used to model Go values.
type SortKind int

const (
	KInt SortKind = iota
	KBool
	KString // Go string and []byte (value semantics)
	KReal
	KRef  // pointer / map / chan / func: an Int reference, nil = 0
	KSeq  // slice or array (value semantics): (Seq Elem)
	KAny  // interface value
	KData // struct value: SMT datatype
	KUnit
	KArr // SMT array (only in spec function signatures)
	KTuple
)

type Sort struct {
	K     SortKind
	Elem  *Sort   // KSeq elem / KArr value
	Key   *Sort   // KArr index; for KRef to a map: key sort
	Val   *Sort   // for KRef to a map: value sort
	Name  string  // KRef: struct name pointed to ("" if not a struct), or "map", "chan", "func", "cell"; KData: datatype name
	Tuple []*Sort // KTuple
}

var (
	SInt    = &Sort{K: KInt}
	SBool   = &Sort{K: KBool}
	SString = &Sort{K: KString}
	SReal   = &Sort{K: KReal}
	SAny    = &Sort{K: KAny}
	SUnit   = &Sort{K: KUnit}
)

func SRef(name string) *Sort { return &Sort{K: KRef, Name: name} }
func SSeq(e *Sort) *Sort     { return &Sort{K: KSeq, Elem: e} }
func SArr(k, v *Sort) *Sort  { return &Sort{K: KArr, Key: k, Elem: v} }

func (s *Sort) SMT() string {
	switch s.K {
	case KInt, KRef:
		return "Int"
	case KBool:
		return "Bool"
	case KString:
		return "String"
	case KReal:
		return "Real"
	case KSeq:
		return "Sq_" + sqID(s.Elem)
	case KAny:
		return "Any"
	case KData:
		return "D_" + s.Name
	case KArr:
		return "(Array " + s.Key.SMT() + " " + s.Elem.SMT() + ")"
	case KUnit:
		return "Bool"
	}
	panic("no SMT sort for tuple")
}

// Ident returns an identifier-safe rendering of the sort.
func (s *Sort) Ident() string {
	r := s.SMT()
	r = strings.NewReplacer("(", "", ")", "", " ", "_").Replace(r)
	return r
}

func (s *Sort) String() string {
	switch s.K {
	case KRef:
		return "Ref<" + s.Name + ">"
	case KTuple:
		parts := []string{}
		for _, t := range s.Tuple {
			parts = append(parts, t.String())
		}
		return "(" + strings.Join(parts, ",") + ")"
	}
	return s.SMT()
}

func sameSort(a, b *Sort) bool { return a.SMT() == b.SMT() }

// StructInfo describes a struct type whose objects live in the field heap.
type StructInfo struct {
	Name   string
	Fields []FieldInfo
	T      *types.Struct
}
type FieldInfo struct {
	Name string
	Sort *Sort
	Type types.Type
}

// World holds type-level tables shared by all functions.
type World struct {
	structs   map[string]*StructInfo // by qualified short name
	datas     map[string]*StructInfo // struct value datatypes in use
	dataOrder []string
	typeIDs   map[string]int // dynamic type ids for interfaces
	typeNames []string
	pkgPath   string
}

func NewWorld(pkgPath string) *World {
	return &World{structs: map[string]*StructInfo{}, datas: map[string]*StructInfo{}, typeIDs: map[string]int{}, pkgPath: pkgPath}
}

// shortName gives a stable short name for a named type.
func (w *World) shortName(n *types.Named) string {
	obj := n.Obj()
	if obj.Pkg() == nil || obj.Pkg().Path() == w.pkgPath {
		return obj.Name()
	}
	name := obj.Pkg().Name() + "_" + obj.Name()
	if ta := n.TypeArgs(); ta != nil && ta.Len() > 0 {
		// instantiations of a generic library type are different structs
		args := ""
		for i := 0; i < ta.Len(); i++ {
			args += types.TypeString(ta.At(i), nil)
		}
		name += fmt.Sprintf("_%x", hashStr(args))
	}
	return name
}

func (w *World) typeName(t types.Type) string {
	s := types.TypeString(t, func(p *types.Package) string {
		if p.Path() == w.pkgPath {
			return ""
		}
		return p.Name()
	})
	return s
}

// TypeID returns the dynamic-type id used inside Any values.
func (w *World) TypeID(t types.Type) int {
	n := w.typeName(t)
	if id, ok := w.typeIDs[n]; ok {
		return id
	}
	id := len(w.typeIDs) + 1
	w.typeIDs[n] = id
	w.typeNames = append(w.typeNames, n)
	return id
}

// isValueStruct: struct types modelled as values (datatypes) rather than heap objects
func isTimeTime(t types.Type) bool {
	if n, ok := t.(*types.Named); ok {
		return n.Obj().Pkg() != nil && n.Obj().Pkg().Path() == "time" && n.Obj().Name() == "Time"
	}
	return false
}

func (w *World) structOf(t types.Type) (*StructInfo, bool) {
	var st *types.Struct
	var name string
	switch n := t.(type) {
	case *types.Named:
		s, ok := n.Underlying().(*types.Struct)
		if !ok {
			return nil, false
		}
		st = s
		name = w.shortName(n)
	case *types.Struct:
		// anonymous struct type: named by a hash of its field list
		st = n
		name = fmt.Sprintf("Anon%x", hashStr(types.TypeString(n, nil)))
	default:
		return nil, false
	}
	if si, ok := w.structs[name]; ok {
		return si, true
	}
	si := &StructInfo{Name: name, T: st}
	w.structs[name] = si
	for i := 0; i < st.NumFields(); i++ {
		f := st.Field(i)
		fname := f.Name()
		if fname == "_" {
			// blank fields (padding, noCopy markers) can repeat in one struct: accessor names must not
			fname = fmt.Sprintf("blank%d", i)
		}
		si.Fields = append(si.Fields, FieldInfo{Name: fname, Sort: w.SortOf(f.Type()), Type: f.Type()})
	}
	return si, true
}

func (w *World) dataOf(t types.Type) *Sort {
	si, _ := w.structOf(t)
	name := si.Name
	if _, ok := w.datas[name]; !ok {
		w.datas[name] = si
		w.dataOrder = append(w.dataOrder, name)
	}
	return &Sort{K: KData, Name: name}
}

// SortOf maps a Go type to its model sort.
func (w *World) SortOf(t types.Type) *Sort {
	if isTimeTime(t) {
		return SInt
	}
	switch u := t.(type) {
	case *types.Named:
		switch uu := u.Underlying().(type) {
		case *types.Struct:
			_ = uu
			return w.dataOf(t)
		case *types.Interface:
			return SAny
		}
		return w.SortOf(u.Underlying())
	case *types.Alias:
		return w.SortOf(types.Unalias(t))
	case *types.Basic:
		info := u.Info()
		switch {
		case info&types.IsBoolean != 0:
			return SBool
		case info&types.IsInteger != 0:
			return SInt
		case info&types.IsString != 0:
			return SString
		case info&types.IsFloat != 0:
			return SReal
		case u.Kind() == types.UnsafePointer:
			return SRef("unsafe")
		case u.Kind() == types.UntypedNil:
			return SRef("nil")
		}
		return SInt
	case *types.Pointer:
		if si, ok := w.structOf(u.Elem()); ok && !isTimeTime(u.Elem()) {
			return SRef(si.Name)
		}
		s := SRef("cell")
		s.Elem = w.SortOf(u.Elem())
		return s
	case *types.Slice:
		if b, ok := u.Elem().Underlying().(*types.Basic); ok && (b.Kind() == types.Byte || b.Kind() == types.Uint8) {
			return SString
		}
		return SSeq(w.SortOf(u.Elem()))
	case *types.Array:
		if b, ok := u.Elem().Underlying().(*types.Basic); ok && (b.Kind() == types.Byte || b.Kind() == types.Uint8) {
			return SString
		}
		return SSeq(w.SortOf(u.Elem()))
	case *types.Map:
		s := SRef("map")
		s.Key = w.SortOf(u.Key())
		s.Val = w.SortOf(u.Elem())
		return s
	case *types.Chan:
		return SRef("chan")
	case *types.Signature:
		return SRef("func")
	case *types.Interface:
		return SAny
	case *types.Struct:
		return w.dataOf(t)
	case *types.Tuple:
		s := &Sort{K: KTuple}
		for i := 0; i < u.Len(); i++ {
			s.Tuple = append(s.Tuple, w.SortOf(u.At(i).Type()))
		}
		return s
	}
	return SInt
}

// Zero returns the SMT term for the zero value of a sort.
func (w *World) Zero(s *Sort) string {
	switch s.K {
	case KInt, KRef:
		return "0"
	case KBool, KUnit:
		return "false"
	case KString:
		return "\"\""
	case KReal:
		return "0.0"
	case KSeq:
		return sqEmpty(s.Elem)
	case KAny:
		return "anyNil"
	case KData:
		si := w.datas[s.Name]
		if si == nil || len(si.Fields) == 0 {
			return "mk_" + s.Name
		}
		parts := []string{"(mk_" + s.Name}
		for _, f := range si.Fields {
			parts = append(parts, w.Zero(f.Sort))
		}
		return strings.Join(parts, " ") + ")"
	}
	return "0"
}

// DataDecls renders the datatype declarations for struct values in use.
func (w *World) DataDecls() string {
	var b strings.Builder
	// fixed point: declaring may add new ones via Zero/field sorts; dataOrder is append-only
	emitted := map[string]bool{}
	var emit func(name string)
	emit = func(name string) {
		if emitted[name] {
			return
		}
		emitted[name] = true
		si := w.datas[name]
		if si != nil {
			for _, f := range si.Fields {
				var dep func(s *Sort)
				dep = func(s *Sort) {
					if s == nil {
						return
					}
					if s.K == KData && s.Name != "anon" {
						emit(s.Name)
					}
					dep(s.Elem)
				}
				dep(f.Sort)
			}
		}
		fmt.Fprintf(&b, "(declare-datatypes ((D_%s 0)) (((mk_%s", name, name)
		if si != nil {
			for _, f := range si.Fields {
				fmt.Fprintf(&b, " (%s_%s %s)", name, f.Name, f.Sort.SMT())
			}
		}
		b.WriteString("))))\n")
	}
	// make sure the sequence sorts of all datatype fields are registered before declaring anything
	for _, n := range append([]string{}, w.dataOrder...) {
		if si := w.datas[n]; si != nil {
			for _, f := range si.Fields {
				_ = f.Sort.SMT()
			}
		}
	}
	emit("anon")
	names := append([]string{}, w.dataOrder...)
	for _, n := range names {
		emit(n)
	}
	data := b.String()
	b.Reset()
	b.WriteString(seqSortDecls())
	b.WriteString(data)
	b.WriteString(seqFuncDecls())
	// dynamic type ids as named constants for spec files
	for _, n := range w.typeNames {
		fmt.Fprintf(&b, "(define-fun TID_%s () Int %d)\n", sanitize(n), w.typeIDs[n])
	}
	return b.String()
}

func (w *World) TypeIDTable() string {
	ids := []string{}
	for n, id := range w.typeIDs {
		ids = append(ids, fmt.Sprintf("%d=%s", id, n))
	}
	sort.Strings(ids)
	return strings.Join(ids, ", ")
}
