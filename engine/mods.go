package main

import (
	"go/types"
	"sort"

	"golang.org/x/tools/go/ssa"
)

// ModAnalysis computes, syntactically and transitively, which state variables a function
// may write (its static mod set) and which struct types it may allocate.
type ModAnalysis struct {
	ex     *Exec
	cache  map[*ssa.Function]*modInfo
	prev   map[*ssa.Function]*modInfo
	inprog map[*ssa.Function]bool
	hitRec bool
}

type modInfo struct {
	vars        map[string]bool
	all         bool
	why         string
	allocVars   map[string]bool         // state vars written only at freshly allocated refs
	paramWrites map[int]map[string]bool // state vars written only at the object passed as parameter #i
	allocates   bool
	rec         bool
}

func newModInfo() *modInfo {
	return &modInfo{vars: map[string]bool{}, allocVars: map[string]bool{}, paramWrites: map[int]map[string]bool{}}
}

func (mi *modInfo) addParamWrite(i int, v string) {
	if mi.paramWrites[i] == nil {
		mi.paramWrites[i] = map[string]bool{}
	}
	mi.paramWrites[i][v] = true
}

// allVars: every variable possibly written at pre-existing objects (parameter writes included)
func (mi *modInfo) allVars() map[string]bool {
	r := map[string]bool{}
	for v := range mi.vars {
		r[v] = true
	}
	for _, m := range mi.paramWrites {
		for v := range m {
			r[v] = true
		}
	}
	return r
}

func (mi *modInfo) merge(o *modInfo) {
	if o.all {
		mi.all = true
		if mi.why == "" {
			mi.why = o.why
		}
	}
	for v := range o.vars {
		mi.vars[v] = true
	}
	for v := range o.allocVars {
		mi.allocVars[v] = true
	}
	for i, mm := range o.paramWrites {
		for v := range mm {
			mi.addParamWrite(i, v)
		}
	}
	if o.allocates {
		mi.allocates = true
	}
}

func NewModAnalysis(ex *Exec) *ModAnalysis {
	return &ModAnalysis{ex: ex, cache: map[*ssa.Function]*modInfo{}, prev: map[*ssa.Function]*modInfo{}, inprog: map[*ssa.Function]bool{}}
}

func (ma *ModAnalysis) recursive(fn *ssa.Function) bool {
	mi := ma.info(fn)
	return mi.rec
}

func (ma *ModAnalysis) info(fn *ssa.Function) *modInfo {
	if mi, ok := ma.cache[fn]; ok {
		return mi
	}
	if ma.inprog[fn] {
		// recursion: use the summary of the previous fixpoint round (optimistic iteration)
		ma.hitRec = true
		if prev, ok := ma.prev[fn]; ok {
			r := newModInfo()
			r.merge(prev)
			r.rec = true
			return r
		}
		mi := newModInfo()
		mi.rec = true
		return mi
	}
	top := len(ma.inprog) == 0
	if top {
		ma.hitRec = false
	}
	mi := ma.compute(fn)
	if top && ma.hitRec {
		// iterate to a fixpoint: summaries only grow
		for round := 0; round < 6; round++ {
			for f, s := range ma.cache {
				ma.prev[f] = s
			}
			ma.prev[fn] = mi
			ma.cache = map[*ssa.Function]*modInfo{}
			ma.hitRec = false
			n := ma.compute(fn)
			same := len(n.vars) == len(mi.vars) && len(n.allocVars) == len(mi.allocVars) && n.all == mi.all && n.allocates == mi.allocates
			mi = n
			if same {
				break
			}
		}
	}
	return mi
}

func (ma *ModAnalysis) compute(fn *ssa.Function) *modInfo {
	ma.inprog[fn] = true
	mi := newModInfo()
	for _, b := range fn.Blocks {
		for _, ins := range b.Instrs {
			ma.instr(fn, ins, mi)
		}
	}
	delete(ma.inprog, fn)
	ma.cache[fn] = mi
	return mi
}

func sortedKeys(m map[string]bool) []string {
	r := []string{}
	for k := range m {
		r = append(r, k)
	}
	sort.Strings(r)
	return r
}

func (ma *ModAnalysis) FuncMods(fn *ssa.Function) ([]string, bool) {
	mi := ma.info(fn)
	all := mi.allVars()
	for v := range mi.allocVars {
		all[v] = true
	}
	if mi.allocates {
		all["alloc"] = true
	}
	return sortedKeys(all), mi.all
}

// AllocFields: state variables the callee writes at freshly allocated references.
func (ma *ModAnalysis) AllocFields(fn *ssa.Function) ([]string, bool) {
	mi := ma.info(fn)
	return sortedKeys(mi.allocVars), mi.allocates || mi.all
}

// LoopAllocOnly: variables the loop writes only at freshly allocated references.
func (ma *ModAnalysis) LoopAllocOnly(fr *Frame, li *loopInfo) map[string]bool {
	freshScope = func(ins ssa.Instruction) bool {
		if ins.Parent() != fr.fn {
			return true // callee-internal allocation: fresh for the callee's own summary
		}
		return ins.Block() != nil && li.body[ins.Block().Index]
	}
	defer func() { freshScope = nil }()
	mi := newModInfo()
	for _, b := range fr.fn.Blocks {
		if !li.body[b.Index] {
			continue
		}
		for _, ins := range b.Instrs {
			ma.instr(fr.fn, ins, mi)
		}
	}
	res := map[string]bool{}
	av := mi.allVars()
	for v := range mi.allocVars {
		if !av[v] {
			res[v] = true
		}
	}
	return res
}

func (ma *ModAnalysis) LoopMods(fr *Frame, li *loopInfo) ([]string, bool) {
	freshScope = func(ins ssa.Instruction) bool {
		if ins.Parent() != fr.fn {
			return true // callee-internal allocation: fresh for the callee's own summary
		}
		return ins.Block() != nil && li.body[ins.Block().Index]
	}
	defer func() { freshScope = nil }()
	mi := newModInfo()
	for _, b := range fr.fn.Blocks {
		if !li.body[b.Index] {
			continue
		}
		for _, ins := range b.Instrs {
			ma.instr(fr.fn, ins, mi)
		}
	}
	all := mi.allVars()
	for v := range mi.allocVars {
		all[v] = true
	}
	if mi.allocates {
		all["alloc"] = true
	}
	return sortedKeys(all), mi.all
}

func (ma *ModAnalysis) InvokeMods(cc *ssa.CallCommon) ([]string, bool) {
	mi := newModInfo()
	ma.invoke(cc, mi)
	all := map[string]bool{}
	for v := range mi.vars {
		all[v] = true
	}
	for v := range mi.allocVars {
		all[v] = true
	}
	if mi.allocates {
		all["alloc"] = true
	}
	return sortedKeys(all), mi.all
}

// rootVar finds the state variable written by a store through addr.
func (ma *ModAnalysis) rootVar(addr ssa.Value) (string, bool) {
	ex := ma.ex
	w := ex.w
	switch a := addr.(type) {
	case *ssa.FieldAddr:
		switch a.X.(type) {
		case *ssa.IndexAddr:
			return ma.rootVar(a.X)
		case *ssa.FieldAddr:
			// field of an embedded struct value
			return ma.rootVar(a.X)
		}
		pt := a.X.Type().Underlying().(*types.Pointer).Elem()
		si, ok := w.structOf(pt)
		if !ok {
			return "", false
		}
		f := si.Fields[a.Field]
		return ex.fieldVar(si.Name, f.Name, f.Sort), true
	case *ssa.IndexAddr:
		if _, isPtr := a.X.Type().Underlying().(*types.Pointer); isPtr {
			return ma.rootVar(a.X)
		}
		// slice value: where was it loaded from?
		if u, ok := a.X.(*ssa.UnOp); ok {
			return ma.rootVar(u.X)
		}
		return "", false
	case *ssa.Alloc:
		elem := a.Type().(*types.Pointer).Elem()
		return ex.cellVar(w.SortOf(elem)), true
	case *ssa.Global:
		name := "G_" + sanitize(a.Pkg.Pkg.Name()+"_"+a.Name())
		ex.regSV(name, w.SortOf(a.Type().(*types.Pointer).Elem()))
		return name, true
	default:
		// plain pointer value
		if pt, ok := addr.Type().Underlying().(*types.Pointer); ok {
			if _, isStruct := w.structOf(pt.Elem()); isStruct && !isTimeTime(pt.Elem()) {
				return "", false // whole-struct store: handled by caller
			}
			return ex.cellVar(w.SortOf(pt.Elem())), true
		}
	}
	return "", false
}

func (ma *ModAnalysis) instr(fn *ssa.Function, ins ssa.Instruction, mi *modInfo) {
	ex := ma.ex
	w := ex.w
	switch i := ins.(type) {
	case *ssa.Store:
		if v, ok := ma.rootVar(i.Addr); ok {
			// stores into freshly allocated cells count as alloc-only
			if al, isAlloc := baseAlloc(i.Addr); isAlloc {
				_ = al
				mi.allocVars[v] = true
			} else if pi, isParam := baseParam(fn, i.Addr); isParam {
				mi.addParamWrite(pi, v)
			} else {
				mi.vars[v] = true
			}
		} else {
			pt, _ := i.Addr.Type().Underlying().(*types.Pointer)
			if pt != nil {
				if si, ok := w.structOf(pt.Elem()); ok {
					for _, f := range si.Fields {
						mi.vars[ex.fieldVar(si.Name, f.Name, f.Sort)] = true
					}
					return
				}
			}
			mi.all = true
			mi.why = "store through untracked pointer in " + fn.Name() + ": " + i.String()
		}
	case *ssa.MapUpdate:
		ms := w.SortOf(i.Map.Type())
		mi.vars[ex.mapDomVar(ms)] = true
		mi.vars[ex.mapValVar(ms)] = true
	case *ssa.Alloc:
		mi.allocates = true
		elem := i.Type().(*types.Pointer).Elem()
		if si, ok := w.structOf(elem); ok && !isTimeTime(elem) {
			for _, f := range si.Fields {
				mi.allocVars[ex.fieldVar(si.Name, f.Name, f.Sort)] = true
			}
		} else {
			mi.allocVars[ex.cellVar(w.SortOf(elem))] = true
		}
	case *ssa.MakeMap:
		mi.allocates = true
		ms := w.SortOf(i.Type())
		mi.allocVars[ex.mapDomVar(ms)] = true
	case *ssa.MakeClosure, *ssa.MakeChan:
		mi.allocates = true
	case *ssa.Call:
		ma.call(fn, &i.Call, mi)
	case *ssa.Defer:
		ma.call(fn, &i.Call, mi)
	case *ssa.Go:
		if callee, ok := i.Call.Value.(*ssa.Function); ok && callee.Pkg == ex.pkg {
			if c, ok := ex.cs.Funcs["spawn "+ex.fnKey(callee)]; ok && c.HasMod {
				for _, v := range ex.staticModVars(c, callee, callee.Signature) {
					mi.vars[v] = true
				}
			}
		}
	}
}

// baseParam: does the address derive directly from a parameter of fn (a field of the object passed in)?
func baseParam(fn *ssa.Function, addr ssa.Value) (int, bool) {
	for {
		switch a := addr.(type) {
		case *ssa.FieldAddr:
			if p, ok := a.X.(*ssa.Parameter); ok {
				for i, q := range fn.Params {
					if q == p {
						return i, true
					}
				}
				return 0, false
			}
			addr = a.X
			continue
		case *ssa.IndexAddr:
			if u, ok := a.X.(*ssa.UnOp); ok {
				addr = u.X
				continue
			}
			addr = a.X
			continue
		}
		return 0, false
	}
}

// baseAlloc: does the address derive directly from a struct Alloc in the same function?
func baseAlloc(addr ssa.Value) (*ssa.Alloc, bool) {
	switch a := addr.(type) {
	case *ssa.FieldAddr:
		if isFreshValue(a.X, 0) {
			al, _ := a.X.(*ssa.Alloc)
			return al, true
		}
	case *ssa.Alloc:
		if isFreshValue(a, 0) {
			return a, true
		}
	case *ssa.IndexAddr:
		if al, ok := a.X.(*ssa.Alloc); ok && isFreshValue(al, 0) {
			return al, true
		}
	}
	return nil, false
}

// isFreshValue: the value is an object allocated during the current call: an Alloc, or the result of a
// constructor-like function all of whose returns yield a fresh allocation.
// freshScope, when set, restricts "fresh" to values created inside the loop body being summarised:
// an object allocated before the loop is an old object from the loop's point of view.
var freshScope func(ins ssa.Instruction) bool

func isFreshValue(v ssa.Value, depth int) bool {
	if depth == 0 && freshScope != nil {
		if ins, ok := v.(ssa.Instruction); ok && !freshScope(ins) {
			return false
		}
	}
	switch x := v.(type) {
	case *ssa.Alloc:
		return true
	case *ssa.Call:
		if depth > 3 {
			return false
		}
		callee, ok := x.Call.Value.(*ssa.Function)
		if !ok || len(callee.Blocks) == 0 || callee.Signature.Results().Len() != 1 {
			return false
		}
		n := 0
		for _, b := range callee.Blocks {
			for _, ins := range b.Instrs {
				if r, ok := ins.(*ssa.Return); ok {
					n++
					if len(r.Results) != 1 || !isFreshValue(r.Results[0], depth+1) {
						return false
					}
				}
			}
		}
		return n > 0
	}
	return false
}

func (ma *ModAnalysis) call(fn *ssa.Function, cc *ssa.CallCommon, mi *modInfo) {
	ex := ma.ex
	if cc.IsInvoke() {
		ma.invoke(cc, mi)
		return
	}
	switch callee := cc.Value.(type) {
	case *ssa.Builtin:
		if callee.Name() == "delete" {
			ms := ex.w.SortOf(cc.Args[0].Type())
			mi.vars[ex.mapDomVar(ms)] = true
		}
		if callee.Name() == "copy" {
			mi.all = true
			mi.why = "copy() in " + fn.Name()
		}
	case *ssa.Function:
		ma.calleeAt(fn, cc, callee, mi)
	case *ssa.MakeClosure:
		ma.calleeAt(fn, cc, callee.Fn.(*ssa.Function), mi)
	default:
		// dynamic call through a function value: a "callback <Type>" contract gives its effects;
		// otherwise it is assumed not to touch tracked state (noted at VC generation)
		key := "callback " + ex.w.typeName(cc.Value.Type())
		if c, ok := ex.cs.Funcs[key]; ok && c.HasMod {
			for _, v := range ex.staticModVars(c, nil, cc.Signature()) {
				mi.vars[v] = true
			}
		}
	}
}

// calleeAt merges the callee's effects at a concrete call site: writes through a callee parameter are
// attributed to the argument (fresh allocation, caller parameter, or unknown object).
func (ma *ModAnalysis) calleeAt(fn *ssa.Function, cc *ssa.CallCommon, callee *ssa.Function, mi *modInfo) {
	tmp := newModInfo()
	ma.callee(callee, tmp)
	// closures / function values passed as arguments may be called by the callee: include their effects
	for _, a := range cc.Args {
		switch f := a.(type) {
		case *ssa.MakeClosure:
			sub := ma.info(f.Fn.(*ssa.Function))
			for v := range sub.allVars() {
				tmp.vars[v] = true
			}
			for v := range sub.allocVars {
				tmp.allocVars[v] = true
			}
			if sub.allocates {
				tmp.allocates = true
			}
			if sub.all {
				tmp.all = true
				tmp.why = "closure argument " + f.Fn.Name()
			}
		case *ssa.Function:
			if f.Pkg == ma.ex.pkg {
				sub := ma.info(f)
				for v := range sub.allVars() {
					tmp.vars[v] = true
				}
				if sub.all {
					tmp.all = true
				}
			}
		}
	}
	pw := tmp.paramWrites
	tmp.paramWrites = map[int]map[string]bool{}
	mi.merge(tmp)
	if tmp.rec {
		mi.rec = true
	}
	for idx, vars := range pw {
		var arg ssa.Value
		if idx < len(cc.Args) {
			arg = cc.Args[idx]
		}
		for v := range vars {
			if arg != nil && isFreshValue(arg, 0) {
				mi.allocVars[v] = true
				continue
			}
			switch a := arg.(type) {
			case *ssa.Parameter:
				done := false
				for i, q := range fn.Params {
					if q == a {
						mi.addParamWrite(i, v)
						done = true
					}
				}
				if !done {
					mi.vars[v] = true
				}
			default:
				mi.vars[v] = true
			}
		}
	}
}

func (ma *ModAnalysis) callee(callee *ssa.Function, mi *modInfo) {
	ex := ma.ex
	if callee.Pkg == nil || callee.Pkg != ex.pkg {
		ln := libName(callee)
		for _, v := range libModVars(ex, ln) {
			// constructors of in-memory buffers and readers initialise ghost state of the fresh object only
			if (v == "RS" || v == "W" || v == "RU" || v == "RE") && (ln == "bytes.NewBuffer" || ln == "bytes.NewBufferString" || ln == "strings.NewReader" || ln == "bufio.NewReader" || ln == "bufio.NewReaderSize") {
				mi.allocVars[v] = true
				continue
			}
			mi.vars[v] = true
		}
		if libAllocates(ln) {
			mi.allocates = true
		}
		return
	}
	key := ex.fnKey(callee)
	if c, ok := ex.cs.Funcs[key]; ok && c.HasMod {
		// locations of the form <parameter>.<field> are writes through that parameter: attributed at the call
		// site (a fresh argument makes them allocation-only)
		pw := ex.paramModLocs(c, callee)
		for _, v := range ex.staticModVars(c, callee, callee.Signature) {
			if idxs, isParam := pw[v]; isParam {
				for _, i := range idxs {
					mi.addParamWrite(i, v)
				}
				continue
			}
			mi.vars[v] = true
		}
		af, al := ma.AllocFields(callee)
		for _, v := range af {
			mi.allocVars[v] = true
		}
		if al {
			mi.allocates = true
		}
		return
	}
	if c, ok := ex.cs.Funcs[key]; ok {
		// call-event ghosts of a contract without modifies clause
		for _, evn := range append(append([]Clause{}, c.Events...), c.REvents...) {
			if s, ok := ex.spec.ghosts[evn.Label]; ok {
				ex.regSV(evn.Label, s)
				mi.vars[evn.Label] = true
			}
		}
	}
	sub := ma.info(callee)
	if sub.rec {
		mi.rec = true
	}
	mi.merge(sub)
	// closures defined in callee and invoked there are part of callee's blocks via MakeClosure calls;
	// anonymous functions passed as arguments are analysed conservatively:
	for _, af := range callee.AnonFuncs {
		mi.merge(ma.info(af))
	}
}

func (ma *ModAnalysis) invoke(cc *ssa.CallCommon, mi *modInfo) {
	ex := ma.ex
	itName := ex.w.typeName(cc.Value.Type())
	key := itName + "." + cc.Method.Name()
	if c, ok := ex.cs.Funcs[key]; ok && !c.safetyOnly() {
		if c.HasMod {
			for _, v := range ex.staticModVars(c, nil, cc.Signature()) {
				mi.vars[v] = true
			}
		}
		return
	}
	if vars, ok := libInvokeMods[key]; ok {
		for _, v := range vars {
			if s, ok := ex.spec.ghosts[v]; ok {
				ex.regSV(v, s)
			}
			mi.vars[v] = true
		}
		return
	}
	if itName == "error" {
		return
	}
	// union over package types implementing the interface
	iface, ok := cc.Value.Type().Underlying().(*types.Interface)
	if !ok {
		mi.all = true
		mi.why = "invoke on non-interface " + key
		return
	}
	found := false
	for _, mem := range ex.pkg.Members {
		tn, ok := mem.(*ssa.Type)
		if !ok {
			continue
		}
		for _, t := range []types.Type{tn.Type(), types.NewPointer(tn.Type())} {
			if types.Implements(t, iface) {
				ms := ex.prog.MethodSets.MethodSet(t)
				sel := ms.Lookup(cc.Method.Pkg(), cc.Method.Name())
				if sel == nil {
					continue
				}
				m := ex.prog.MethodValue(sel)
				if m != nil && m.Pkg == ex.pkg {
					found = true
					tmp := newModInfo()
					ma.callee(m, tmp)
					for v := range tmp.allVars() {
						mi.vars[v] = true
					}
					tmp.paramWrites = map[int]map[string]bool{}
					mi.merge(tmp)
				}
			}
		}
	}
	if !found {
		// external interface (net.Conn, io.Writer, ...): effects are on ghost state only, declared in libInvokeMods
		return
	}
}

// staticModVars resolves the modifies clause of a contract to state variable names.
func (ex *Exec) staticModVars(c *Contract, callee *ssa.Function, sig *types.Signature) (vars []string) {
	env := &Env{ex: ex, vars: map[string]*Val{}, cur: NewState(), old: NewState()}
	if callee != nil {
		for _, p := range callee.Params {
			s := ex.w.SortOf(p.Type())
			env.vars[p.Name()] = &Val{T: "dummy_" + p.Name(), S: s}
		}
	} else {
		env.vars["self"] = &Val{T: "dummy_self", S: SAny}
		for i := 0; i < sig.Params().Len(); i++ {
			p := sig.Params().At(i)
			env.vars[p.Name()] = &Val{T: "dummy", S: ex.w.SortOf(p.Type())}
		}
	}
	defer func() {
		if r := recover(); r != nil {
			if se, ok := r.(specErr); ok {
				ex.vc.unsupported("modifies clause of " + c.Key + ": " + se.msg)
				return
			}
			panic(r)
		}
	}()
	seen := map[string]bool{}
	for _, evn := range append(append([]Clause{}, c.Events...), c.REvents...) {
		if s, ok := ex.spec.ghosts[evn.Label]; ok {
			ex.regSV(evn.Label, s)
			seen[evn.Label] = true
			vars = append(vars, evn.Label)
		}
	}
	for _, mc := range c.Modifies {
		for _, loc := range ex.resolveModLoc(mc.Expr, env) {
			if !seen[loc.Var] {
				seen[loc.Var] = true
				vars = append(vars, loc.Var)
			}
		}
	}
	return vars
}

// ---- loop frames: which objects of a state variable does a loop body write? ----

type loopMod struct {
	whole bool
	objs  []string
}

// objTerm returns a term (valid at the loop header, before the havoc) for a loop-invariant SSA value.
func (ma *ModAnalysis) objTerm(fr *Frame, li *loopInfo, v ssa.Value, modVars map[string]bool) (string, bool) {
	ex := ma.ex
	switch x := v.(type) {
	case *ssa.Const, *ssa.Parameter, *ssa.FreeVar:
		return fr.val(v).T, true
	case ssa.Instruction:
		if b := x.Block(); b != nil && !li.body[b.Index] {
			if val, ok := fr.vals[v]; ok && val.T != "" {
				return val.T, true
			}
			return "", false
		}
		// load of a field of an invariant object, the field not being modified in the loop
		if u, ok := v.(*ssa.UnOp); ok {
			if fa, ok := u.X.(*ssa.FieldAddr); ok {
				base, ok := ma.objTerm(fr, li, fa.X, modVars)
				if !ok {
					return "", false
				}
				pt := fa.X.Type().Underlying().(*types.Pointer).Elem()
				si, ok := ex.w.structOf(pt)
				if !ok {
					return "", false
				}
				f := si.Fields[fa.Field]
				fv := ex.fieldVar(si.Name, f.Name, f.Sort)
				if modVars[fv] {
					return "", false
				}
				return "(select " + ex.get(fr.cur, fv) + " " + base + ")", true
			}
		}
	}
	return "", false
}

// LoopObjMods refines LoopMods: per modified variable, either the whole variable or a list of object terms.
func (ma *ModAnalysis) LoopObjMods(fr *Frame, li *loopInfo, vars []string) map[string]*loopMod {
	freshScope = func(ins ssa.Instruction) bool {
		if ins.Parent() != fr.fn {
			return true // callee-internal allocation: fresh for the callee's own summary
		}
		return ins.Block() != nil && li.body[ins.Block().Index]
	}
	defer func() { freshScope = nil }()
	ex := ma.ex
	modVars := map[string]bool{}
	for _, v := range vars {
		modVars[v] = true
	}
	res := map[string]*loopMod{}
	get := func(v string) *loopMod {
		m := res[v]
		if m == nil {
			m = &loopMod{}
			res[v] = m
		}
		return m
	}
	// subst maps callee-level values (parameters) to terms valid at the loop header
	type substT map[ssa.Value]string
	term := func(val ssa.Value, subst substT) (string, bool) {
		if subst != nil {
			if t, ok := subst[val]; ok {
				return t, t != ""
			}
			// inside an inlined callee only parameters (and constants) are known
			if _, isConst := val.(*ssa.Const); isConst {
				return fr.val(val).T, true
			}
			return "", false
		}
		return ma.objTerm(fr, li, val, modVars)
	}
	addObj := func(v string, val ssa.Value, subst substT) {
		if t, ok := term(val, subst); ok {
			m := get(v)
			if !contains(m.objs, t) {
				m.objs = append(m.objs, t)
			}
		} else {
			get(v).whole = true
		}
	}
	wholeAll := func(vs []string) {
		for _, v := range vs {
			get(v).whole = true
		}
	}
	var baseObj func(addr ssa.Value) (ssa.Value, bool)
	baseObj = func(addr ssa.Value) (ssa.Value, bool) {
		switch a := addr.(type) {
		case *ssa.FieldAddr:
			switch a.X.(type) {
			case *ssa.IndexAddr, *ssa.FieldAddr:
				return baseObj(a.X)
			}
			return a.X, true
		case *ssa.IndexAddr:
			if _, isPtr := a.X.Type().Underlying().(*types.Pointer); isPtr {
				return baseObj(a.X)
			}
			if u, ok := a.X.(*ssa.UnOp); ok {
				return baseObj(u.X)
			}
		}
		return nil, false
	}
	var visit func(fn *ssa.Function, ins ssa.Instruction, subst substT, depth int)
	visit = func(fn *ssa.Function, ins ssa.Instruction, subst substT, depth int) {
		switch i := ins.(type) {
		case *ssa.Store:
			v, ok := ma.rootVar(i.Addr)
			if !ok {
				return
			}
			if _, isAlloc := baseAlloc(i.Addr); isAlloc {
				get(v).whole = true // fresh objects only; handled by the allocation frame
				return
			}
			if obj, ok := baseObj(i.Addr); ok {
				addObj(v, obj, subst)
			} else {
				get(v).whole = true
			}
		case *ssa.MapUpdate:
			ms := ex.w.SortOf(i.Map.Type())
			addObj(ex.mapDomVar(ms), i.Map, subst)
			addObj(ex.mapValVar(ms), i.Map, subst)
		case *ssa.Call, *ssa.Defer:
			var cc *ssa.CallCommon
			if c, ok := i.(*ssa.Call); ok {
				cc = &c.Call
			} else {
				cc = &i.(*ssa.Defer).Call
			}
			if bi, ok := cc.Value.(*ssa.Builtin); ok {
				if bi.Name() == "delete" {
					ms := ex.w.SortOf(cc.Args[0].Type())
					addObj(ex.mapDomVar(ms), cc.Args[0], subst)
				}
				return
			}
			var c *Contract
			var callee *ssa.Function
			var names []string
			if cc.IsInvoke() {
				key := ex.w.typeName(cc.Value.Type()) + "." + cc.Method.Name()
				c = ex.cs.Funcs[key]
				names = paramNames(nil, cc.Signature(), true)
			} else if f, ok := cc.Value.(*ssa.Function); ok && f.Pkg == ex.pkg {
				callee = f
				c = ex.cs.Funcs[ex.fnKey(f)]
				names = paramNames(f, f.Signature, false)
			} else if _, ok := cc.Value.(*ssa.Function); !ok && !cc.IsInvoke() {
				key := "callback " + ex.w.typeName(cc.Value.Type())
				c = ex.cs.Funcs[key]
				names = paramNames(nil, cc.Signature(), true)
			}
			sub := newModInfo()
			ma.instr(fn, ins, sub)
			if c == nil && !cc.IsInvoke() && callee == nil {
				// unknown function value: nothing tracked (assumption noted at VC generation)
			}
			subVars := append(sortedKeys(sub.vars), sortedKeys(sub.allocVars)...)
			if c == nil || !c.HasMod {
				// contract-less, loop-free callee: descend with parameters substituted
				if c == nil && callee != nil && len(callee.Blocks) > 0 && !hasLoop(callee) && depth < 4 && !ma.recursive(callee) {
					ns := substT{}
					for k, p := range callee.Params {
						if k < len(cc.Args) {
							if t, ok := term(cc.Args[k], subst); ok {
								ns[p] = t
							} else {
								ns[p] = ""
							}
						}
					}
					for _, b := range callee.Blocks {
						for _, ci := range b.Instrs {
							visit(callee, ci, ns, depth+1)
						}
					}
					return
				}
				wholeAll(subVars)
				return
			}
			env := &Env{ex: ex, vars: map[string]*Val{}, cur: fr.cur, old: fr.cur, fr: fr}
			off := 0
			if cc.IsInvoke() {
				if t, ok := term(cc.Value, subst); ok {
					env.vars["self"] = &Val{T: t, S: SAny}
				}
				off = 1
			} else if callee == nil {
				off = 1
			}
			for k, a := range cc.Args {
				if k+off < len(names) {
					if t, ok := term(a, subst); ok {
						env.vars[names[k+off]] = &Val{T: t, S: ex.w.SortOf(a.Type())}
					}
				}
			}
			func() {
				defer func() {
					if r := recover(); r != nil {
						if _, ok := r.(specErr); ok {
							wholeAll(subVars)
							return
						}
						panic(r)
					}
				}()
				for _, mc := range c.Modifies {
					for _, loc := range ex.resolveModLoc(mc.Expr, env) {
						if loc.All {
							get(loc.Var).whole = true
						} else {
							m := get(loc.Var)
							if !contains(m.objs, loc.Obj) {
								m.objs = append(m.objs, loc.Obj)
							}
						}
					}
				}
				for _, v := range sortedKeys(sub.allocVars) {
					get(v).whole = true
				}
				for _, evn := range append(append([]Clause{}, c.Events...), c.REvents...) {
					get(evn.Label).whole = true
				}
			}()
		}
	}
	for _, b := range fr.fn.Blocks {
		if !li.body[b.Index] {
			continue
		}
		for _, ins := range b.Instrs {
			visit(fr.fn, ins, nil, 0)
		}
	}
	return res
}

func (ma *ModAnalysis) whyAll(fn *ssa.Function) string {
	return ma.info(fn).why
}

// paramModLocs: state variables that the modifies clause of c names only as fields of parameters
// (var -> parameter indices). A variable that is also named in any other form is left out.
func (ex *Exec) paramModLocs(c *Contract, callee *ssa.Function) map[string][]int {
	out := map[string][]int{}
	if callee == nil {
		return out
	}
	env := &Env{ex: ex, vars: map[string]*Val{}, cur: NewState(), old: NewState()}
	idxOf := map[string]int{}
	for i, p := range callee.Params {
		env.vars[p.Name()] = &Val{T: "dummy_" + p.Name(), S: ex.w.SortOf(p.Type())}
		idxOf["dummy_"+p.Name()] = i
	}
	bad := map[string]bool{}
	func() {
		defer func() { recover() }()
		for _, mc := range c.Modifies {
			for _, loc := range ex.resolveModLoc(mc.Expr, env) {
				if i, ok := idxOf[loc.Obj]; ok && !loc.All {
					out[loc.Var] = append(out[loc.Var], i)
				} else {
					bad[loc.Var] = true
				}
			}
		}
	}()
	for v := range bad {
		delete(out, v)
	}
	return out
}
