package main

import (
	"bytes"
	"context"
	"encoding/json"
	"fmt"
	"os"
	"os/exec"
	"path/filepath"
	"regexp"
	"strconv"
	"strings"
	"text/template"
	"time"
)

// tryReplay turns a solver model into a concrete run of the real code where a replay
// driver (a Go test template under /verif/replay) exists for the obligation's function.
// The driver is injected with `go test -overlay`, so nothing is written under the repository.
func tryReplay(d *Driver, repo string, r *oblResult, info map[string]interface{}) (string, map[string]interface{}) {
	if r.O.Fn == "" || r.R.Status == "missing" || r.R.Status == "undecided" {
		return "no-driver", nil
	}
	verif := filepath.Dir(d.specDir)
	tmplPath := filepath.Join(verif, "replay", sanitize(r.O.Fn)+".go.tmpl")
	tb, err := os.ReadFile(tmplPath)
	if err != nil {
		return "no-driver", nil
	}
	inputs := map[string]string{}
	if r.R.Status == "sat" {
		inputs = parseGetValue(r.R.Model, r.O.Syms)
	}
	data := map[string]interface{}{}
	for k, v := range inputs {
		data[k] = smtValueToGo(v)
	}
	label := r.O.Name
	if i := strings.LastIndex(label, ":"); i >= 0 {
		label = label[i+1:]
	}
	data["Label"] = label
	data["Obligation"] = r.O.Name
	data["HasModel"] = r.R.Status == "sat"
	funcs := template.FuncMap{
		"str": func(v interface{}) string {
			if v == nil {
				return `""`
			}
			return fmt.Sprint(v)
		},
		"int": func(v interface{}) string {
			if v == nil {
				return "0"
			}
			return fmt.Sprint(v)
		},
	}
	t, err := template.New("replay").Funcs(funcs).Option("missingkey=zero").Parse(string(tb))
	if err != nil {
		return "driver-error", map[string]interface{}{"error": err.Error()}
	}
	var src bytes.Buffer
	if err := t.Execute(&src, data); err != nil {
		return "driver-error", map[string]interface{}{"error": err.Error()}
	}
	tmp, _ := os.MkdirTemp("", "govc-replay")
	defer os.RemoveAll(tmp)
	testFile := filepath.Join(tmp, "zz_govc_replay_test.go")
	os.WriteFile(testFile, src.Bytes(), 0644)
	ov := map[string]interface{}{"Replace": map[string]string{filepath.Join(repo, "zz_govc_replay_test.go"): testFile}}
	ob, _ := json.Marshal(ov)
	ovFile := filepath.Join(tmp, "overlay.json")
	os.WriteFile(ovFile, ob, 0644)
	ctx, cancel := context.WithTimeout(context.Background(), 120*time.Second)
	defer cancel()
	goArgs := []string{"test", "-overlay", ovFile, "-vet=off", "-timeout", "60s", "-count=1", "-v", "-run", "TestGovcReplay"}
	if strings.Contains(string(tb), "//govc:race") {
		goArgs = append(goArgs, "-race") // the driver demonstrates a data race: run it under the race detector
	}
	goArgs = append(goArgs, ".")
	cmd := exec.CommandContext(ctx, "go", goArgs...)
	cmd.Dir = repo
	cmd.Env = append(os.Environ(), "GOFLAGS=-mod=mod", "GOPROXY=off", "GOSUMDB=off", "GOTOOLCHAIN=local")
	var out bytes.Buffer
	cmd.Stdout = &out
	cmd.Stderr = &out
	cmd.Run()
	o := out.String()
	verdict := "not-reproduced"
	if strings.Contains(o, "REPLAY: reproduced") {
		verdict = "reproduced"
	} else if !strings.Contains(o, "REPLAY: not-reproduced") {
		verdict = "driver-inconclusive"
	}
	lines := []string{}
	for _, l := range strings.Split(o, "\n") {
		if strings.Contains(l, "REPLAY") || strings.Contains(l, "panic") || strings.Contains(l, "FAIL") {
			lines = append(lines, strings.TrimSpace(l))
		}
	}
	if len(lines) > 20 {
		lines = lines[:20]
	}
	return verdict, map[string]interface{}{
		"driver":      tmplPath,
		"inputs":      inputs,
		"test_source": src.String(),
		"output":      lines,
		"how_to_run":  "write test_source to a file and run: cd " + repo + " && go test -overlay <overlay.json mapping " + repo + "/zz_govc_replay_test.go to that file> -vet=off -run TestGovcReplay .",
	}
}

var uEsc = regexp.MustCompile(`\\u\{([0-9a-fA-F]+)\}|\\u([0-9a-fA-F]{4})|\\x([0-9a-fA-F]{2})`)

// smtValueToGo converts an SMT model value to a Go literal.
func smtValueToGo(v string) string {
	v = strings.TrimSpace(v)
	if strings.HasPrefix(v, "\"") && strings.HasSuffix(v, "\"") && len(v) >= 2 {
		s := v[1 : len(v)-1]
		s = strings.ReplaceAll(s, "\"\"", "\"")
		var b []byte
		i := 0
		for i < len(s) {
			if m := uEsc.FindStringSubmatchIndex(s[i:]); m != nil && m[0] == 0 {
				hex := ""
				for g := 1; g <= 3; g++ {
					if m[2*g] >= 0 {
						hex = s[i+m[2*g] : i+m[2*g+1]]
					}
				}
				n, _ := strconv.ParseInt(hex, 16, 32)
				if n < 256 {
					b = append(b, byte(n))
				} else {
					b = append(b, []byte(string(rune(n)))...)
				}
				i += m[1]
				continue
			}
			b = append(b, s[i])
			i++
		}
		return strconv.Quote(string(b))
	}
	if strings.HasPrefix(v, "(-") {
		inner := strings.TrimSpace(strings.TrimSuffix(strings.TrimPrefix(v, "(-"), ")"))
		return "-" + inner
	}
	if v == "true" || v == "false" {
		return v
	}
	if _, err := strconv.ParseInt(v, 10, 64); err == nil {
		return v
	}
	return strconv.Quote(v)
}
