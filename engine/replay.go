package main

// tryReplay turns a solver model into a concrete run of the real code where a replay
// driver exists for the obligation's function. Returns the verdict and details.
func tryReplay(d *Driver, repo string, r *oblResult, info map[string]interface{}) (string, map[string]interface{}) {
	return "no-driver", nil
}
