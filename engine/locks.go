package main

// Lock-order discipline (C09, C05): a structural deadlock-avoidance rule, decided on go/ssa and the
// class-hierarchy call graph without a solver.
//
// Every mutex is identified by the struct type that embeds (or holds) it. For every function the set of mutex
// types that may be held at each call is computed by a forward data-flow over its control-flow graph (Lock adds the
// type, a non-deferred Unlock removes it, `holds p` of the contract seeds the entry set), and for every function
// the set of mutex types it may acquire, directly or through anything it calls (static calls, interface
// invocations and calls through function values resolved by the call graph; `go` statements start with an empty
// lockset and are not followed). Whenever type T may be held while T' is acquired there is an edge T -> T'.
//
// Obligations: the edge relation has no cycle. sync.Mutex is not reentrant, so the self-edge T -> T reached through
// static calls only (the same receiver is locked again, as in a helper that calls a locking accessor of its own
// object) is a certain deadlock; two different types in a cycle are a deadlock for some schedule. A self-edge that
// exists only through interface dispatch or a function value (a pool that contains a pool, a listener manager
// registered as a listener of itself) is not counted: the call graph cannot tell the objects apart (listed as
// not decided).

import (
	"fmt"
	"go/types"
	"sort"
	"strings"

	"golang.org/x/tools/go/callgraph"
	"golang.org/x/tools/go/callgraph/cha"
	"golang.org/x/tools/go/ssa"
)

type lockAcq struct {
	static bool   // reached through static calls only
	pos    string // where the Lock call is
}

// mutexOwnerType names the struct type whose mutex a Lock/Unlock call operates on.
func (d *Driver) mutexOwnerType(cc *ssa.CallCommon) string {
	f := cc.StaticCallee()
	if f == nil || f.Signature.Recv() == nil || len(cc.Args) == 0 {
		return ""
	}
	rt := f.Signature.Recv().Type().String()
	if rt != "*sync.Mutex" && rt != "*sync.RWMutex" {
		return ""
	}
	v := cc.Args[0]
	if fa, ok := v.(*ssa.FieldAddr); ok {
		if pt, ok := fa.X.Type().Underlying().(*types.Pointer); ok {
			return d.w.typeName(pt.Elem())
		}
	}
	// a free-standing mutex: identified by the value's own type and name
	return "mutex:" + v.Name()
}

func isLockName(n string) bool   { return n == "Lock" || n == "RLock" }
func isUnlockName(n string) bool { return n == "Unlock" || n == "RUnlock" }

func (d *Driver) DisciplineLockOrder() *FuncVC {
	ex := d.newExec(nil, "discipline/lockorder", false)
	vc := ex.vc
	fvc := &FuncVC{Key: "discipline/lockorder", VC: vc}
	fail := func(kind, name, why, pos string) {
		o := vc.oblige(kind, name, "true", "false", why, pos, nil)
		o.Decided = "sat"
	}
	pass := func(kind, name, why, pos string) {
		o := vc.oblige(kind, name, "true", "true", why, pos, nil)
		o.Decided = "unsat"
	}
	cg := cha.CallGraph(d.prog)
	inPkg := func(f *ssa.Function) bool {
		return f != nil && f.Pkg == d.pkg && len(f.Blocks) > 0 && !strings.HasSuffix(prog_file(d, f), "_test.go")
	}
	// callees of a call site; static = the callee is fixed by the instruction
	calleesOf := func(f *ssa.Function, site ssa.CallInstruction) (out []*ssa.Function, static bool) {
		if sc := site.Common().StaticCallee(); sc != nil {
			return []*ssa.Function{sc}, true
		}
		if mc, ok := site.Common().Value.(*ssa.MakeClosure); ok {
			return []*ssa.Function{mc.Fn.(*ssa.Function)}, true
		}
		if n := cg.Nodes[f]; n != nil {
			for _, e := range n.Out {
				if e.Site == site && e.Callee != nil {
					out = append(out, e.Callee.Func)
				}
			}
		}
		return out, false
	}
	_ = callgraph.Edge{}
	// acquired(f): mutex types f may lock, transitively
	memo := map[*ssa.Function]map[string]lockAcq{}
	busy := map[*ssa.Function]bool{}
	var acquired func(f *ssa.Function) map[string]lockAcq
	acquired = func(f *ssa.Function) map[string]lockAcq {
		if m, ok := memo[f]; ok {
			return m
		}
		out := map[string]lockAcq{}
		if !inPkg(f) || busy[f] {
			return out
		}
		busy[f] = true
		add := func(t string, a lockAcq) {
			if old, ok := out[t]; !ok || (a.static && !old.static) {
				out[t] = a
			}
		}
		for _, b := range f.Blocks {
			for _, ins := range b.Instrs {
				site, ok := ins.(ssa.CallInstruction)
				if !ok {
					continue
				}
				if _, isGo := ins.(*ssa.Go); isGo {
					continue
				}
				cc := site.Common()
				if sc := cc.StaticCallee(); sc != nil && isLockName(sc.Name()) {
					if t := d.mutexOwnerType(cc); t != "" {
						add(t, lockAcq{static: true, pos: d.prog.Fset.Position(ins.Pos()).String()})
						continue
					}
				}
				cs, static := calleesOf(f, site)
				for _, g := range cs {
					for t, a := range acquired(g) {
						add(t, lockAcq{static: static && a.static, pos: a.pos})
					}
				}
			}
		}
		delete(busy, f)
		memo[f] = out
		return out
	}
	type edge struct{ from, to string }
	edges := map[edge]string{}   // -> description of one witness
	dynSelf := map[string]string{} // self-edges through dynamic dispatch only (not counted)
	var keys []string
	for k := range d.fns {
		keys = append(keys, k)
	}
	sort.Strings(keys)
	for _, k := range keys {
		f := d.fns[k]
		if !inPkg(f) {
			continue
		}
		// may-held sets per block (forward data-flow, union at joins)
		in := map[*ssa.BasicBlock]map[string]bool{}
		entry := map[string]bool{}
		if c := d.cs.Funcs[k]; c != nil {
			for _, hp := range c.Holds {
				for _, p := range f.Params {
					if p.Name() == hp {
						if pt, ok := p.Type().Underlying().(*types.Pointer); ok {
							entry[d.w.typeName(pt.Elem())] = true
						}
					}
				}
			}
		}
		in[f.Blocks[0]] = entry
		work := []*ssa.BasicBlock{f.Blocks[0]}
		transfer := func(b *ssa.BasicBlock, held map[string]bool, record bool) map[string]bool {
			cur := map[string]bool{}
			for t := range held {
				cur[t] = true
			}
			for _, ins := range b.Instrs {
				site, ok := ins.(ssa.CallInstruction)
				if !ok {
					continue
				}
				if _, isGo := ins.(*ssa.Go); isGo {
					continue
				}
				_, isDefer := ins.(*ssa.Defer)
				cc := site.Common()
				if sc := cc.StaticCallee(); sc != nil {
					if t := d.mutexOwnerType(cc); t != "" {
						if isLockName(sc.Name()) && !isDefer {
							if record {
								for h := range cur {
									edges[edge{h, t}] = fmt.Sprintf("%s locks %s at %s while %s may be held", k, t, d.prog.Fset.Position(ins.Pos()), h)
								}
							}
							cur[t] = true
						} else if isUnlockName(sc.Name()) && !isDefer {
							delete(cur, t)
						}
						continue
					}
				}
				if isDefer || !record || len(cur) == 0 {
					continue
				}
				cs, static := calleesOf(f, site)
				for _, g := range cs {
					for t, a := range acquired(g) {
						for h := range cur {
							desc := fmt.Sprintf("%s calls %s at %s while %s may be held; %s is locked at %s", k, g.RelString(d.pkg.Pkg), d.prog.Fset.Position(ins.Pos()), h, t, a.pos)
							if h == t && !(static && a.static) {
								dynSelf[t] = desc
								continue
							}
							if _, ok := edges[edge{h, t}]; !ok {
								edges[edge{h, t}] = desc
							}
						}
					}
				}
			}
			return cur
		}
		for len(work) > 0 {
			b := work[len(work)-1]
			work = work[:len(work)-1]
			out := transfer(b, in[b], false)
			for _, s := range b.Succs {
				changed := false
				if in[s] == nil {
					in[s] = map[string]bool{}
					changed = true
				}
				for t := range out {
					if !in[s][t] {
						in[s][t] = true
						changed = true
					}
				}
				if changed {
					work = append(work, s)
				}
			}
		}
		for _, b := range f.Blocks {
			if in[b] != nil {
				transfer(b, in[b], true)
			}
		}
	}
	// cycles
	adj := map[string][]string{}
	nodes := map[string]bool{}
	for e := range edges {
		adj[e.from] = append(adj[e.from], e.to)
		nodes[e.from], nodes[e.to] = true, true
	}
	var names []string
	for n := range nodes {
		names = append(names, n)
		sort.Strings(adj[n])
	}
	sort.Strings(names)
	cyclic := false
	for _, start := range names {
		// shortest cycle through start (BFS)
		prev := map[string]string{}
		queue := []string{start}
		seen := map[string]bool{}
		found := ""
		for len(queue) > 0 && found == "" {
			x := queue[0]
			queue = queue[1:]
			for _, y := range adj[x] {
				if y == start {
					found = x
					break
				}
				if !seen[y] {
					seen[y] = true
					prev[y] = x
					queue = append(queue, y)
				}
			}
		}
		if found == "" {
			continue
		}
		path := []string{start}
		for x := found; x != start; x = prev[x] {
			path = append([]string{x}, path...)
		}
		path = append([]string{start}, path...)
		// report each cycle once: from its smallest node
		min := path[0]
		for _, p := range path {
			if p < min {
				min = p
			}
		}
		if min != start {
			continue
		}
		cyclic = true
		var why []string
		for i := 0; i+1 < len(path); i++ {
			why = append(why, edges[edge{path[i], path[i+1]}])
		}
		fail("lock-order", "lockorder/cycle@"+strings.Join(path, "->"), "mutexes can be acquired in a cyclic order (sync.Mutex is not reentrant; a cycle is a deadlock for some schedule): "+strings.Join(why, " | "), "")
	}
	if !cyclic {
		var es []string
		for e := range edges {
			es = append(es, e.from+"->"+e.to)
		}
		sort.Strings(es)
		pass("lock-order", "lockorder/acyclic", "lock acquisition order between mutex-bearing types is acyclic: "+strings.Join(es, ", "), "")
	}
	for t, desc := range dynSelf {
		vc.note("lock order: self-edge of " + t + " through interface dispatch / function values only is not counted (the call graph cannot tell the objects apart): " + desc)
	}
	return fvc
}
