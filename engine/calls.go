package main

import (
	"fmt"
	"go/types"
	"strings"
	"sync"

	"golang.org/x/tools/go/ssa"
)

// execCall handles ssa.Call / ssa.Defer / (ignored) ssa.Go call sites.
// result is the SSA value to bind (nil for defer).
func (fr *Frame) execCall(ins ssa.Instruction, cc *ssa.CallCommon, result ssa.Value) {
	ex := fr.ex
	w := ex.w
	bind := func(v *Val) {
		if result != nil {
			if v == nil {
				v = fr.havocVal("call", w.SortOf(result.Type()))
			}
			fr.setVal(result, v)
		}
	}
	args := []*Val{}
	for _, a := range cc.Args {
		args = append(args, fr.val(a))
	}
	var resSort *Sort
	if result != nil {
		resSort = w.SortOf(result.Type())
	} else {
		resSort = w.SortOf(cc.Signature().Results())
		if cc.Signature().Results().Len() == 1 {
			resSort = w.SortOf(cc.Signature().Results().At(0).Type())
		}
	}
	// interface method invocation
	if cc.IsInvoke() {
		recv := fr.val(cc.Value)
		fr.safety("nil-deref", ins, ex.nnAny(recv.T, cc.Value.Type()), "invoke "+cc.Method.Name()+" on "+cc.Value.Name())
		// the dynamic type is evident (the interface value was boxed from a concrete package type on every
		// path): call the method itself, so that its own contract applies rather than the interface's
		if recv.Dyn != nil && len(recv.Elems) == 1 && recv.Elems[0] != nil {
			if m := ex.prog.LookupMethod(recv.Dyn, cc.Method.Pkg(), cc.Method.Name()); m != nil && m.Pkg == ex.pkg && len(m.Blocks) > 0 && m.Synthetic == "" {
				bind(fr.callStatic(ins, m, append([]*Val{recv.Elems[0]}, args...), nil, resSort))
				return
			}
		}
		bind(fr.invoke(ins, cc, recv, args, resSort))
		return
	}
	switch callee := cc.Value.(type) {
	case *ssa.Builtin:
		bind(fr.builtin(ins, callee, cc, args, resSort))
		return
	case *ssa.Function:
		bind(fr.callStatic(ins, callee, args, nil, resSort))
		return
	case *ssa.MakeClosure:
		clo := fr.val(callee).Clo
		bind(fr.callStatic(ins, clo.Fn.(*ssa.Function), args, clo.Bindings, resSort))
		return
	}
	// dynamic call through a function value
	fv := fr.val(cc.Value)
	if fv.Clo != nil {
		bind(fr.callStatic(ins, fv.Clo.Fn.(*ssa.Function), args, fv.Clo.Bindings, resSort))
		return
	}
	fr.safety("nil-deref", ins, "(not (= "+fv.T+" 0))", "call of func value "+cc.Value.Name())
	bind(fr.callUnknownFunc(ins, cc, fv, args, resSort))
}

// checkSafetyPre generates the srequires obligations of a safety-only interface contract at an invoke.
func (fr *Frame) checkSafetyPre(ins ssa.Instruction, c *Contract, key string, sig *types.Signature, all []*Val) {
	ex := fr.ex
	env := &Env{ex: ex, vars: map[string]*Val{}, cur: fr.cur, old: fr.cur, fr: fr}
	names := paramNames(nil, sig, true)
	for i, n := range names {
		if i < len(all) && n != "" && n != "_" {
			env.vars[n] = all[i]
		}
	}
	for k, rq := range c.Requires {
		label := rq.Label
		if label == "" {
			label = fmt.Sprint(k)
		}
		g := ex.trBool(rq.Expr, env)
		ex.vc.oblige("spre", ex.oblName(fmt.Sprintf("%s/spre@%s:%s", fr.key, key, label)), fr.curReach, g, rq.Src, ex.posOf(ins.Pos()), nil)
		ex.vc.assume(imp(fr.curReach, g))
	}
}

// callUnknownFunc: call through an unknown function value (callback).
func (fr *Frame) callUnknownFunc(ins ssa.Instruction, cc *ssa.CallCommon, fv *Val, args []*Val, resSort *Sort) *Val {
	ex := fr.ex
	// A named callback contract may exist: "callback <FuncTypeName>" keyed by the static type name
	key := "callback " + ex.w.typeName(cc.Value.Type())
	if c, ok := ex.cs.Funcs[key]; ok {
		return fr.applyContract(ins, c, key, nil, cc.Signature(), nil, append([]*Val{fv}, args...), resSort)
	}
	ex.vc.note("call through function value " + ex.w.typeName(cc.Value.Type()) + ": assumed not to modify state tracked by the verified function; results unconstrained")
	return fr.havocVal("dyncall", resSort)
}

func (fr *Frame) invoke(ins ssa.Instruction, cc *ssa.CallCommon, recv *Val, args []*Val, resSort *Sort) *Val {
	ex := fr.ex
	// interface contract keyed "Iface.Method"
	itName := ex.w.typeName(cc.Value.Type())
	key := itName + "." + cc.Method.Name()
	if c, ok := ex.cs.Funcs[key]; ok && !c.safetyOnly() {
		all := append([]*Val{recv}, args...)
		return fr.applyContract(ins, c, key, nil, cc.Signature(), recv, all, resSort)
	} else if ok && ex.safety {
		// safety-only interface contract: its preconditions are checked here, effects as without contract
		all := append([]*Val{recv}, args...)
		fr.checkSafetyPre(ins, c, key, cc.Signature(), all)
	}
	if m, ok := libInvoke[key]; ok {
		return m(fr, ins, recv, args, resSort)
	}
	if itName == "error" && cc.Method.Name() == "Error" {
		return fr.havocVal("errstr", SString)
	}
	if (itName == "net.Conn" || itName == "net.Listener") && (cc.Method.Name() == "RemoteAddr" || cc.Method.Name() == "LocalAddr" || cc.Method.Name() == "Addr") {
		// documented: these never return nil
		r := fr.havocVal("addr", SAny)
		ex.vc.assume(not(eq(r.T, "anyNil")))
		return r
	}
	// fall back: havoc the union of the static mod sets of package implementations
	mods, all := ex.mods.InvokeMods(cc)
	if all {
		ex.havocAll(fr.cur)
	} else {
		fr.havocVars(mods)
	}
	ex.vc.note("invoke " + key + " without contract: results unconstrained, effects = union of implementations")
	r := fr.havocVal("invoke_"+cc.Method.Name(), resSort)
	fr.assumeResultsWF(cc.Signature(), r)
	if !ex.strongIface(cc.Value.Type()) {
		ex.libResultConvention(key, cc.Signature(), r)
	}
	return r
}

// libResultConvention: standard-library convention (assumed, listed in the evidence): a (T, error) result with a
// nil error carries a non-nil T when T is a pointer or an interface.
func (ex *Exec) libResultConvention(name string, sig *types.Signature, r *Val) {
	if r.S.K == KTuple && len(r.Tup) == 2 && r.Tup[1].S.K == KAny && sig.Results().Len() == 2 && sig.Results().At(1).Type().String() == "error" {
		x := r.Tup[0]
		if x.S.K == KRef && x.S.Name != "map" && x.S.Name != "chan" {
			ex.vc.assume(imp(eq(r.Tup[1].T, "anyNil"), "(> "+x.T+" 0)"))
			ex.vc.note("library convention assumed: " + name + " returns a non-nil value with a nil error")
		} else if x.S.K == KAny {
			ex.vc.assume(imp(eq(r.Tup[1].T, "anyNil"), "(and (not (= "+x.T+" anyNil)) (> (refOf "+x.T+") 0))"))
			ex.vc.note("library convention assumed: " + name + " returns a non-nil value with a nil error")
		}
	}
	// constructors New* return a non-nil pointer
	if r.S.K == KRef && sig.Recv() == nil && strings.Contains(name, ".New") {
		ex.vc.assume("(> " + r.T + " 0)")
		ex.vc.note("library convention assumed: " + name + " returns a non-nil pointer")
	}
}

// havocVars havocs whole state variables.
func (fr *Frame) havocVars(vars []string) {
	ex := fr.ex
	for _, v := range allocFirst(vars) {
		if v == "alloc" {
			old := ex.get(fr.cur, "alloc")
			n := ex.havoc(fr.cur, "alloc")
			ex.vc.assume("(>= " + n + " " + old + ")")
			continue
		}
		ex.havoc(fr.cur, v)
	}
}

// havocCallee havocs the static mod set of a contract-less (or modifies-less) callee; variables the
// callee writes only at freshly allocated references keep their values at older references.
func (fr *Frame) havocCallee(callee *ssa.Function, argVals ...ssa.Value) {
	ex := fr.ex
	src := ex.mods.info(callee)
	if src.all {
		ex.vc.note("havoc-all at call to " + ex.fnKey(callee) + ": " + ex.mods.whyAll(callee))
		ex.havocAll(fr.cur)
		return
	}
	// attribute parameter writes: fresh argument => alloc-only, otherwise a general write
	mi := newModInfo()
	mi.allocates = src.allocates
	for v := range src.vars {
		mi.vars[v] = true
	}
	for v := range src.allocVars {
		mi.allocVars[v] = true
	}
	for idx, vars := range src.paramWrites {
		fresh := false
		if idx < len(argVals) {
			fresh = isFreshValue(argVals[idx], 0)
		}
		for v := range vars {
			if fresh {
				mi.allocVars[v] = true
			} else {
				mi.vars[v] = true
			}
		}
	}
	oldAlloc := ex.get(fr.cur, "alloc")
	if mi.allocates {
		n := ex.havoc(fr.cur, "alloc")
		ex.vc.assume("(>= " + n + " " + oldAlloc + ")")
	}
	for _, v := range sortedKeys(mi.vars) {
		if v != "alloc" {
			ex.havoc(fr.cur, v)
		}
	}
	for _, v := range sortedKeys(mi.allocVars) {
		if mi.vars[v] || v == "alloc" {
			continue
		}
		s := ex.svSort(v)
		old := ex.get(fr.cur, v)
		n := ex.havoc(fr.cur, v)
		if s.K == KArr && s.Key.K == KInt {
			ex.vc.assume("(forall ((r Int)) (! (=> (<= r " + oldAlloc + ") (= (select " + n + " r) (select " + old + " r))) :pattern ((select " + n + " r))))")
		}
	}
}

func (fr *Frame) callStatic0(ins ssa.Instruction, callee *ssa.Function, args []*Val, bindings []*Val, resSort *Sort) *Val {
	ex := fr.ex
	for k, a := range args {
		if a != nil && a.Borrow != nil {
			fr.useBytes(ins, a, fmt.Sprintf("argument %d of %s", k, callee.Name()))
		}
	}
	if ex.safety && callee.Pkg == ex.pkg && len(callee.Blocks) > 0 {
		// pointer-to-struct arguments (receiver included) must be non-nil: callees assume it
		for k, a := range args {
			if k < len(callee.Params) && a.S.K == KAny && ex.strongIface(callee.Params[k].Type()) {
				fr.safety("boxed-nil", ins, wfIface(a.T), callee.Name()+" arg "+callee.Params[k].Name())
			}
			if k >= len(callee.Params) || !derefsParam(callee, k) {
				continue
			}
			if a.S.K == KRef && a.S.Name != "" && a.S.Name != "cell" && a.S.Name != "map" && a.S.Name != "chan" && a.S.Name != "nil" {
				fr.safety("nil-arg", ins, "(not (= "+a.T+" 0))", callee.Name()+" arg "+callee.Params[k].Name())
			}
			if a.S.K == KAny {
				fr.safety("nil-arg", ins, ex.nnAny(a.T, callee.Params[k].Type()), callee.Name()+" arg "+callee.Params[k].Name())
			}
		}
	}
	if ex.lockCheck && callee.Pkg == ex.pkg {
		if c := ex.cs.Funcs[ex.fnKey(callee)]; c != nil {
			for _, hp := range c.Holds {
				for k, p := range callee.Params {
					if p.Name() == hp && k < len(args) {
						h := ex.get(fr.cur, fr.ghost("held"))
						ex.vc.oblige("guard", ex.oblName(fmt.Sprintf("%s/guard@call %s:holds %s", fr.key, callee.Name(), hp)), fr.curReach, "(select "+h+" "+args[k].T+")", "callee expects the mutex of "+hp+" to be held", ex.posOf(ins.Pos()), nil)
					}
				}
			}
		}
	}
	// library function?
	if callee.Pkg == nil || callee.Pkg != ex.pkg {
		return fr.callLib(ins, callee, args, resSort)
	}
	key := ex.fnKey(callee)
	if c, ok := ex.cs.Funcs[key]; ok && !c.holdsOnly() && !(c.safetyOnly() && !ex.safety) {
		return fr.applyContract(ins, c, key, callee, callee.Signature, nil, args, resSort)
	}
	// inline when loop-free (or all loops have specs -> not supported without contract)
	if len(callee.Blocks) > 0 && ex.depth < ex.maxInline && !hasLoop(callee) && !ex.mods.recursive(callee) {
		ex.depth++
		ex.vc.comment("inline " + key)
		saveCur, saveReach, saveBlock := fr.cur, fr.curReach, fr.curBlock
		res, out, retReach := ex.execFunction(callee, args, bindings, fr.cur, fr.curReach, false, nil)
		ex.depth--
		fr.cur, fr.curReach, fr.curBlock = saveCur, saveReach, saveBlock
		_ = retReach
		fr.cur = out
		ex.vc.comment("end inline " + key)
		if len(res) == 0 {
			return &Val{T: "false", S: SUnit}
		}
		if len(res) == 1 {
			return res[0]
		}
		return &Val{S: resSort, Tup: res}
	}
	// no contract, not inlinable: havoc static mod set
	fr.havocCallee(callee, callArgs(ins)...)
	ex.vc.note("call to " + key + " without contract (has loops): results unconstrained, effects = static mod set")
	hr := fr.havocVal("call_"+callee.Name(), resSort)
	fr.assumeResultsWF(callee.Signature, hr)
	return hr
}

func hasLoop(fn *ssa.Function) bool {
	for _, b := range fn.Blocks {
		for _, s := range b.Succs {
			if s.Dominates(b) {
				return true
			}
		}
	}
	return false
}

// applyContract: assert requires, havoc modifies, assume ensures.
func (fr *Frame) applyContract(ins ssa.Instruction, c *Contract, key string, callee *ssa.Function, sig *types.Signature, recv *Val, args []*Val, resSort *Sort) *Val {
	ex := fr.ex
	vc := ex.vc
	vc.comment("call " + key + " by contract")
	vc.note("uses-contract\t" + key)
	pre := fr.cur.Clone()
	env := &Env{ex: ex, vars: map[string]*Val{}, cur: pre, old: pre, fr: fr}
	// bind parameters
	names := paramNames(callee, sig, c.Iface)
	for i, n := range names {
		if i < len(args) && n != "" && n != "_" {
			env.vars[n] = args[i]
		}
	}
	nplain := -1
	for _, rq := range c.Requires {
		if !rq.SafetyOnly {
			nplain++ // unlabelled clauses are numbered among the ordinary preconditions only
		}
		if rq.SafetyOnly && !ex.safety {
			continue
		}
		label := rq.Label
		if label == "" {
			label = fmt.Sprint(nplain)
		}
		g := ex.trBool(rq.Expr, env)
		kind := "pre"
		if rq.SafetyOnly {
			kind = "spre"
		}
		vc.oblige(kind, ex.oblName(fmt.Sprintf("%s/%s@%s:%s", fr.key, kind, key, label)), fr.curReach, g, rq.Src, ex.posOf(ins.Pos()), nil)
		vc.assume(imp(fr.curReach, g))
	}
	// havoc
	post := fr.cur
	if c.HasMod {
		fr.havocByModifies(c, env, callee)
	} else if callee != nil {
		fr.havocCallee(callee, callArgs(ins)...)
	} else {
		vc.note("interface contract " + key + " without modifies clause: assumed to modify nothing tracked")
	}
	// results
	res := fr.havocVal("res_"+sanitize(key), resSort)
	env2 := &Env{ex: ex, vars: map[string]*Val{}, cur: post, old: pre, fr: fr}
	for k, v := range env.vars {
		env2.vars[k] = v
	}
	bindResults(env2, sig, res)
	for _, en := range c.Ensures {
		if en.SafetyOnly && !ex.safety {
			continue
		}
		vc.assume(imp(fr.curReach, ex.trBool(en.Expr, env2)))
	}
	// call-event ghosts: history of calls made, maintained at call sites only
	for _, evn := range c.Events {
		g := fr.ghost(evn.Label)
		v := ex.tr(evn.Expr, env)
		ex.set(fr.cur, g, sqApp(ex.get(fr.cur, g), sqUnit(v.T, ex.svSort(g).Elem), ex.svSort(g).Elem))
	}
	for _, evn := range c.REvents {
		g := fr.ghost(evn.Label)
		v := ex.tr(evn.Expr, env2)
		ex.set(fr.cur, g, sqApp(ex.get(fr.cur, g), sqUnit(v.T, ex.svSort(g).Elem), ex.svSort(g).Elem))
	}
	// reference results are allocated
	fr.assumeResultsAllocated(res)
	fr.assumeResultsWF(sig, res)
	if c.BorrowedResult != "" {
		if rv, ok := env.vars[c.BorrowedResult]; ok {
			target := res
			if res.Tup != nil && len(res.Tup) > 0 {
				target = res.Tup[0]
			}
			re := ex.get(fr.cur, fr.ghost("RE"))
			target.Borrow = &Borrow{Active: "true", Reader: rv.T, Epoch: "(select " + re + " " + rv.T + ")"}
		}
	}
	return res
}

func (fr *Frame) assumeResultsAllocated(v *Val) {
	if v == nil {
		return
	}
	if v.Tup != nil {
		for _, t := range v.Tup {
			fr.assumeResultsAllocated(t)
		}
		return
	}
	if v.S.K == KRef {
		fr.ex.assumeAllocated(fr.cur, v.T)
	}
}

func paramNames(callee *ssa.Function, sig *types.Signature, iface bool) []string {
	names := []string{}
	if callee != nil {
		for _, p := range callee.Params {
			names = append(names, p.Name())
		}
		return names
	}
	names = append(names, "self")
	for i := 0; i < sig.Params().Len(); i++ {
		n := sig.Params().At(i).Name()
		if n == "" {
			n = fmt.Sprintf("arg%d", i)
		}
		names = append(names, n)
	}
	return names
}

func bindResults(env *Env, sig *types.Signature, res *Val) {
	rs := sig.Results()
	vals := []*Val{}
	if res == nil {
		return
	}
	if res.Tup != nil {
		vals = res.Tup
	} else if rs.Len() == 1 {
		vals = []*Val{res}
	}
	for i := 0; i < rs.Len() && i < len(vals); i++ {
		n := rs.At(i).Name()
		if n != "" && n != "_" {
			env.vars[n] = vals[i]
		}
		env.vars[fmt.Sprintf("result%d", i)] = vals[i]
		if types.TypeString(rs.At(i).Type(), nil) == "error" && i == rs.Len()-1 {
			if _, ok := env.vars["err"]; !ok {
				env.vars["err"] = vals[i]
			}
		}
	}
	if len(vals) >= 1 {
		env.vars["result"] = vals[0]
	}
}

// havocByModifies applies the declared modifies clause of a contract at a call site.
func (fr *Frame) havocByModifies(c *Contract, env *Env, callee *ssa.Function) {
	ex := fr.ex
	vc := ex.vc
	st := fr.cur
	type objMod struct {
		objs []string
		all  bool
	}
	mods := map[string]*objMod{}
	order := []string{}
	add := func(v string, obj string, all bool) {
		m := mods[v]
		if m == nil {
			m = &objMod{}
			mods[v] = m
			order = append(order, v)
		}
		if all {
			m.all = true
		} else {
			m.objs = append(m.objs, obj)
		}
	}
	for _, mc := range c.Modifies {
		for _, loc := range ex.resolveModLoc(mc.Expr, env) {
			add(loc.Var, loc.Obj, loc.All)
		}
	}
	// allocation: callee may allocate; all fields of allocated struct types are written at fresh refs
	allocates := true
	var allocFields []string
	if callee != nil {
		allocFields, allocates = ex.mods.AllocFields(callee)
	}
	oldAlloc := ""
	if allocates {
		ex.regSV("alloc", SInt)
		oldAlloc = ex.get(st, "alloc")
		n := ex.havoc(st, "alloc")
		vc.assume("(>= " + n + " " + oldAlloc + ")")
		for _, f := range allocFields {
			if _, ok := mods[f]; !ok {
				mods[f] = &objMod{}
				order = append(order, f)
			}
		}
	}
	for _, v := range order {
		m := mods[v]
		old := ex.get(st, v)
		s := ex.svSort(v)
		if m.all || s.K != KArr {
			ex.havoc(st, v)
			continue
		}
		if !allocates || !contains(allocFields, v) {
			// quantifier-free: only the listed objects change
			t := old
			for k, o := range m.objs {
				fv := vc.fresh(fmt.Sprintf("%s_upd%d", v, k), s.Elem)
				t = "(store " + t + " " + o + " " + fv + ")"
			}
			ex.set(st, v, t)
			continue
		}
		n := ex.havoc(st, v)
		conds := []string{"(<= r " + oldAlloc + ")"}
		for _, o := range m.objs {
			conds = append(conds, "(not (= r "+o+"))")
		}
		vc.assume("(forall ((r Int)) (! (=> " + and(conds...) + " (= (select " + n + " r) (select " + old + " r))) :pattern ((select " + n + " r))))")
	}
}

func contains(xs []string, x string) bool {
	for _, y := range xs {
		if y == x {
			return true
		}
	}
	return false
}

// ---- builtins ----

func (fr *Frame) builtin(ins ssa.Instruction, b *ssa.Builtin, cc *ssa.CallCommon, args []*Val, resSort *Sort) *Val {
	ex := fr.ex
	vc := ex.vc
	switch b.Name() {
	case "len":
		x := args[0]
		if x.S.K == KRef { // map or chan
			if x.S.Key != nil || isMapType(cc.Args[0].Type()) {
				n := vc.fresh("maplen", SInt)
				vc.assume("(>= " + n + " 0)")
				vc.note("len(map) abstracted to an unconstrained non-negative integer")
				return &Val{T: n, S: SInt}
			}
			n := vc.fresh("chanlen", SInt)
			vc.assume("(>= " + n + " 0)")
			return &Val{T: n, S: SInt}
		}
		return &Val{T: lenOf(x.T, x.S), S: SInt}
	case "cap":
		x := args[0]
		n := vc.fresh("cap", SInt)
		if x.S.K == KSeq || x.S.K == KString {
			vc.assume("(>= " + n + " " + lenOf(x.T, x.S) + ")")
		}
		return &Val{T: n, S: SInt}
	case "append":
		x, y := args[0], args[1]
		fr.useBytes(ins, x, "append (destination)")
		fr.useBytes(ins, y, "append (source)")
		if x.S.K == KString {
			return &Val{T: vc.define("append", SString, "(str.++ "+x.T+" "+y.T+")"), S: SString}
		}
		return &Val{T: vc.define("append", x.S, sqApp(x.T, y.T, x.S.Elem)), S: x.S}
	case "copy":
		vc.unsupported("copy() builtin in " + fr.key)
		return fr.havocVal("copy", SInt)
	case "delete":
		m, k := args[0], args[1]
		ms := ex.w.SortOf(cc.Args[0].Type())
		dn := ex.mapDomVar(ms)
		ex.set(fr.cur, dn, "(store "+ex.get(fr.cur, dn)+" "+m.T+" (store (select "+ex.get(fr.cur, dn)+" "+m.T+") "+k.T+" false))")
		return &Val{T: "false", S: SUnit}
	case "print", "println":
		return &Val{T: "false", S: SUnit}
	case "min", "max":
		op := "<="
		if b.Name() == "max" {
			op = ">="
		}
		t := args[0].T
		for _, a := range args[1:] {
			t = "(ite (" + op + " " + t + " " + a.T + ") " + t + " " + a.T + ")"
		}
		return &Val{T: t, S: args[0].S}
	case "close":
		return &Val{T: "false", S: SUnit}
	}
	vc.unsupported("builtin " + b.Name())
	return fr.havocVal("builtin", resSort)
}

func isMapType(t types.Type) bool {
	_, ok := t.Underlying().(*types.Map)
	return ok
}

// fullName of a library function, e.g. "strings.Index" or "(*bytes.Buffer).String"
func libName(fn *ssa.Function) string {
	s := fn.String()
	s = strings.ReplaceAll(s, "go.uber.org/zap", "zap")
	return s
}

// stringMethod returns the String() string method of a package type, if any.
func (ex *Exec) stringMethod(t types.Type) *ssa.Function {
	ms := ex.prog.MethodSets.MethodSet(t)
	for i := 0; i < ms.Len(); i++ {
		sel := ms.At(i)
		if sel.Obj().Name() != "String" {
			continue
		}
		sig, ok := sel.Type().(*types.Signature)
		if !ok || sig.Params().Len() != 0 || sig.Results().Len() != 1 {
			continue
		}
		fn := ex.prog.MethodValue(sel)
		if fn != nil && fn.Pkg == ex.pkg {
			return fn
		}
	}
	return nil
}

func callArgs(ins ssa.Instruction) []ssa.Value {
	if ci, ok := ins.(ssa.CallInstruction); ok {
		return ci.Common().Args
	}
	return nil
}

// derefsParam: does the callee dereference its k-th parameter (field access or method call on it)?
var derefMemo = map[*ssa.Parameter]int{} // 0 unknown, 1 in progress, 2 false, 3 true
var derefMu sync.Mutex

// derefsParam: does callee dereference / invoke / call its k-th parameter, directly or by handing it to a
// package function that does? Such parameters are assumed non-nil at entry in safety mode, and exactly
// those are checked at call sites.
func derefsParam(callee *ssa.Function, k int) bool {
	derefMu.Lock()
	defer derefMu.Unlock()
	return derefsParamRec(callee, k)
}

func derefsParamRec(callee *ssa.Function, k int) bool {
	p := callee.Params[k]
	switch derefMemo[p] {
	case 1, 2:
		return false
	case 3:
		return true
	}
	derefMemo[p] = 1
	res := false
	if refs := p.Referrers(); refs != nil {
		for _, r := range *refs {
			switch x := r.(type) {
			case *ssa.FieldAddr:
				if x.X == p {
					res = true
				}
			case *ssa.UnOp:
				if x.X == p {
					res = true
				}
			case *ssa.Store:
				// parameter spilled to a local cell (captured by a closure, or address taken): uses go through the cell
				if _, isAlloc := x.Addr.(*ssa.Alloc); isAlloc && x.Val == p {
					res = true
				}
			case ssa.CallInstruction:
				cc := x.Common()
				if cc.IsInvoke() && cc.Value == p {
					res = true // interface parameter invoked directly
				}
				if !cc.IsInvoke() && cc.Value == p {
					res = true // function parameter called directly
				}
				if f, ok := cc.Value.(*ssa.Function); ok {
					if len(cc.Args) > 0 && cc.Args[0] == p && f.Signature.Recv() != nil {
						res = true
					}
					if f.Pkg == callee.Pkg && len(f.Blocks) > 0 {
						for j, a := range cc.Args {
							if a == p && j < len(f.Params) && derefsParamRec(f, j) {
								res = true
							}
						}
					}
				}
			}
			if res {
				break
			}
		}
	}
	if res {
		derefMemo[p] = 3
	} else {
		derefMemo[p] = 2
	}
	return res
}

// strongIface reports whether t is an interface declared in the package under verification: its values are
// boxed pointers, so "non-nil" means a non-nil interface holding a non-nil pointer.
func (ex *Exec) strongIface(t types.Type) bool {
	if t == nil {
		return false
	}
	n, ok := t.(*types.Named)
	if !ok || n.Obj().Pkg() == nil || ex.pkg == nil || n.Obj().Pkg() != ex.pkg.Pkg {
		return false
	}
	_, isI := n.Underlying().(*types.Interface)
	return isI
}

// wfIface: a value of a package interface type is either nil or holds a non-nil pointer (no boxed nil
// pointers). Safety mode keeps this as an invariant of parameters, results and fields of such types.
func wfIface(term string) string {
	return "(or (= " + term + " anyNil) (> (refOf " + term + ") 0))"
}

// assumeResultsWF assumes wfIface for package-interface results of a summarised call.
func (fr *Frame) assumeResultsWF(sig *types.Signature, res *Val) {
	ex := fr.ex
	if !ex.safety || sig == nil || res == nil {
		return
	}
	n := sig.Results().Len()
	for k := 0; k < n; k++ {
		if !ex.strongIface(sig.Results().At(k).Type()) {
			continue
		}
		v := res
		if n > 1 {
			if k >= len(res.Tup) {
				continue
			}
			v = res.Tup[k]
		}
		if v.S.K == KAny {
			g := wfIface(v.T)
			if n > 1 && sig.Results().At(n-1).Type().String() == "error" && len(res.Tup) == n {
				g = or(not(eq(res.Tup[n-1].T, "anyNil")), g) // only promised together with a nil error
			}
			ex.vc.assume(g)
		}
	}
}

// nnAny renders "interface value term is non-nil" for static type t.
func (ex *Exec) nnAny(term string, t types.Type) string {
	if ex.strongIface(t) {
		return "(and (not (= " + term + " anyNil)) (> (refOf " + term + ") 0))"
	}
	return "(not (= " + term + " anyNil))"
}

// callStatic wraps callStatic0 with the pool-buffer protocol: a `releases b` callee invalidates the buffer passed
// as b (using it afterwards is a borrow-valid failure; releasing it twice as well), a `pool-result` callee hands out
// a buffer that stays valid until it is released.
func (fr *Frame) callStatic(ins ssa.Instruction, callee *ssa.Function, args []*Val, bindings []*Val, resSort *Sort) *Val {
	ex := fr.ex
	var c *Contract
	if callee.Pkg == ex.pkg && ex.cs != nil {
		c = ex.cs.Funcs[ex.fnKey(callee)]
	}
	if c != nil && c.Releases != "" {
		for k, p := range callee.Params {
			if p.Name() == c.Releases && k < len(args) && args[k].Borrow != nil && args[k].Borrow.Pool {
				fr.useBytes(ins, args[k], "released ("+callee.Name()+")")
				fr.bumpEpoch(args[k].Borrow.Reader)
				na := *args[k]
				na.Borrow = nil // the callee owns it from here on
				args = append(append([]*Val{}, args[:k]...), append([]*Val{&na}, args[k+1:]...)...)
			}
		}
	}
	r := fr.callStatic0(ins, callee, args, bindings, resSort)
	if c != nil && c.PoolResult && r != nil && r.S != nil && r.S.K == KString {
		id := ex.alloc(fr.cur, "poolbuf")
		fr.setGhostAt("RE", id, "0")
		nr := *r
		nr.Borrow = &Borrow{Active: "true", Reader: id, Epoch: "0", Pool: true}
		return &nr
	}
	return r
}
