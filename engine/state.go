package main

import (
	"fmt"
	"sort"
)

// State maps state variables (field heaps, map heaps, cells, globals, ghost) to their
// current SMT term. A missing entry means "the value at function entry" (<name>_0).
type State struct {
	vars  map[string]string
	epoch int // bumped by havoc-all
}

func NewState() *State { return &State{vars: map[string]string{}} }

func (s *State) Clone() *State {
	n := &State{vars: make(map[string]string, len(s.vars)), epoch: s.epoch}
	for k, v := range s.vars {
		n.vars[k] = v
	}
	return n
}

// StateVars registry (per Exec): sorts of state variables
type SVReg struct {
	sorts map[string]*Sort
}

func (ex *Exec) svSort(name string) *Sort {
	s, ok := ex.sv.sorts[name]
	if !ok {
		panic("unknown state var " + name)
	}
	return s
}

func (ex *Exec) regSV(name string, s *Sort) string {
	if old, ok := ex.sv.sorts[name]; ok {
		if !sameSort(old, s) {
			panic(fmt.Sprintf("state var %s sort clash %s vs %s", name, old.SMT(), s.SMT()))
		}
		return name
	}
	ex.sv.sorts[name] = s
	return name
}

func (ex *Exec) get(st *State, name string) string {
	if t, ok := st.vars[name]; ok {
		return t
	}
	s := ex.svSort(name)
	tn := name + "_0"
	if st.epoch != 0 {
		tn = fmt.Sprintf("%s_e%d", name, st.epoch)
	}
	if !ex.vc.declared[tn] {
		ex.vc.declareOnce(tn, s)
		if st.epoch == 0 {
			ex.assumeFieldInvAll(NewState(), name, tn) // entry version: relative to the entry allocation top
		} else {
			ex.assumeFieldInvAll(st, name, tn)
		}
	}
	return tn
}

func (ex *Exec) set(st *State, name string, term string) {
	st.vars[name] = ex.vc.define(name, ex.svSort(name), term)
}

func (ex *Exec) havoc(st *State, name string) string {
	t := ex.vc.fresh(name, ex.svSort(name))
	st.vars[name] = t
	ex.assumeFieldInvAll(st, name, t)
	return t
}

var epochCounter = 0

func (ex *Exec) havocAll(st *State) {
	epochCounter++
	st.epoch = epochCounter
	st.vars = map[string]string{}
	ex.vc.note("havoc-all used (callee or loop with unknown effects)")
}

// mergeStates builds the state at a join: conds[i] is the edge condition for states[i].
func (ex *Exec) mergeStates(conds []string, states []*State) *State {
	if len(states) == 1 {
		return states[0].Clone()
	}
	res := NewState()
	// epoch: if they differ, fall back to explicit merge of all known vars
	ep := states[0].epoch
	sameEpoch := true
	for _, s := range states {
		if s.epoch != ep {
			sameEpoch = false
		}
	}
	keys := map[string]bool{}
	for _, s := range states {
		for k := range s.vars {
			keys[k] = true
		}
	}
	if !sameEpoch {
		for k := range ex.sv.sorts {
			keys[k] = true
		}
		epochCounter++
		res.epoch = epochCounter
	} else {
		res.epoch = ep
	}
	ks := []string{}
	for k := range keys {
		ks = append(ks, k)
	}
	sort.Strings(ks)
	for _, k := range ks {
		terms := make([]string, len(states))
		allSame := true
		for i, s := range states {
			terms[i] = ex.get(s, k)
			if terms[i] != terms[0] {
				allSame = false
			}
		}
		if allSame {
			if sameEpoch {
				if _, ok := states[0].vars[k]; ok {
					res.vars[k] = terms[0]
				}
			} else {
				res.vars[k] = terms[0]
			}
			continue
		}
		t := terms[len(terms)-1]
		for i := len(terms) - 2; i >= 0; i-- {
			t = ite(conds[i], terms[i], t)
		}
		res.vars[k] = ex.vc.define(k, ex.svSort(k), t)
	}
	return res
}
