package main

import (
	"fmt"
	"go/constant"
	"go/token"
	"go/types"
	"strings"

	"golang.org/x/tools/go/ssa"
)

func (ex *Exec) constVal(c *ssa.Const) *Val {
	s := ex.w.SortOf(c.Type())
	v := &Val{S: s, GoT: c.Type()}
	if c.Value == nil {
		v.T = ex.w.Zero(s)
		return v
	}
	switch c.Value.Kind() {
	case constant.Bool:
		if constant.BoolVal(c.Value) {
			v.T = "true"
		} else {
			v.T = "false"
		}
	case constant.String:
		str := constant.StringVal(c.Value)
		v.T = smtString(str)
		v.Const = &str
	case constant.Int:
		if s.K == KReal {
			f, _ := constant.Float64Val(c.Value)
			v.T = fmt.Sprintf("%f", f)
		} else if i, ok := constant.Int64Val(c.Value); ok {
			v.T = smtInt(i)
		} else {
			v.T = c.Value.ExactString()
		}
	case constant.Float:
		f, _ := constant.Float64Val(c.Value)
		if s.K == KReal {
			v.T = fmt.Sprintf("%f", f)
		} else {
			v.T = smtInt(int64(f))
		}
	default:
		v.T = ex.w.Zero(s)
	}
	return v
}

// ---- memory ----

func (ex *Exec) fieldVar(structName, field string, fs *Sort) string {
	n := "H_" + sanitize(structName) + "_" + sanitize(field)
	if ex.fieldOf == nil {
		ex.fieldOf = map[string][2]string{}
	}
	ex.fieldOf[n] = [2]string{structName, field}
	return ex.regSV(n, SArr(SInt, fs))
}

// assumeFieldInvAll: a fresh (entry or havocked) version of a field heap satisfies the field's
// invariants at every object (they are proved at every store in verified code).
func (ex *Exec) assumeFieldInvAll(st *State, name, term string) {
	sf, ok := ex.fieldOf[name]
	if !ok {
		return
	}
	// heap closure: a reference stored in a field is an allocated object (or nil)
	if s := ex.svSort(name); s.K == KArr && s.Elem.K == KRef && !ex.inFieldInv {
		ex.regSV("alloc", SInt)
		ex.inFieldInv = true
		al := ex.get(st, "alloc")
		ex.inFieldInv = false
		ex.vc.assume("(forall ((q_o Int)) (! (and (>= (select " + term + " q_o) 0) (<= (select " + term + " q_o) " + al + ")) :pattern ((select " + term + " q_o))))")
	}
	if s := ex.svSort(name); ex.safety && s.K == KArr && s.Elem.K == KSeq && (s.Elem.Elem.K == KAny || s.Elem.Elem.K == KRef && s.Elem.Elem.Name != "" && s.Elem.Elem.Name != "cell") && !ex.inFieldInv {
		// safety mode: slices of pointers / interface values stored in fields hold no nil (checked at every store)
		el := s.Elem.Elem
		nn := "(> " + sqNth("(select "+term+" q_o)", "q_k", el) + " 0)"
		if el.K == KAny {
			nn = ex.nnAny(sqNth("(select "+term+" q_o)", "q_k", el), ex.fieldElemType(sf[0], sf[1]))
		}
		ex.vc.assume("(forall ((q_o Int) (q_k Int)) (! (=> (and (<= 0 q_k) (< q_k " + sqLen("(select "+term+" q_o)", el) + ")) " + nn + ") :pattern (" + sqNth("(select "+term+" q_o)", "q_k", el) + ")))")
	}
	invs := ex.fieldInvs(sf[0], sf[1])
	if len(invs) == 0 || ex.inFieldInv {
		return
	}
	ex.inFieldInv = true
	defer func() { ex.inFieldInv = false }()
	s := ex.svSort(name)
	for _, inv := range invs {
		env := &Env{ex: ex, vars: map[string]*Val{"$v": {T: "(select " + term + " q_o)", S: s.Elem}, "$o": {T: "q_o", S: SRef(sf[0])}}, cur: st, old: st}
		body := ex.trBool(inv.Expr, env)
		ex.vc.assume("(forall ((q_o Int)) (! " + body + " :pattern ((select " + term + " q_o))))")
	}
}
func mapElemType(t types.Type) types.Type {
	if m, ok := t.Underlying().(*types.Map); ok {
		return m.Elem()
	}
	return nil
}

// fieldGoType: Go type of a struct field (nil when unknown).
func (ex *Exec) fieldGoType(st, f string) types.Type {
	si := ex.w.structs[st]
	if si == nil {
		return nil
	}
	for _, fi := range si.Fields {
		if fi.Name == f {
			return fi.Type
		}
	}
	return nil
}

// fieldElemType: Go element type of a slice-typed struct field (nil when unknown).
func (ex *Exec) fieldElemType(st, f string) types.Type {
	si := ex.w.structs[st]
	if si == nil {
		return nil
	}
	for _, fi := range si.Fields {
		if fi.Name == f && fi.Type != nil {
			if sl, ok := fi.Type.Underlying().(*types.Slice); ok {
				return sl.Elem()
			}
		}
	}
	return nil
}

// capturedNonNil: captured variables of these types are assumed non-nil inside closure bodies (safety mode)
// and checked where the closure is created.
func capturedNonNil(ex *Exec, t types.Type) bool {
	s := ex.w.SortOf(t)
	if s.K == KRef {
		return s.Name != "" && s.Name != "cell" && s.Name != "map" && s.Name != "chan" && s.Name != "nil"
	}
	return s.K == KAny && ex.strongIface(t)
}

// assumeFieldInvAt is assumeFieldInvAll for a single havocked object o with new field value v
// (object-level loop frames).
func (ex *Exec) assumeFieldInvAt(st *State, name, o, v string) {
	sf, ok := ex.fieldOf[name]
	if !ok || ex.inFieldInv {
		return
	}
	s := ex.svSort(name)
	if s.K == KArr && s.Elem.K == KRef {
		ex.assumeAllocated(st, v)
	}
	if s.K == KArr && s.Elem.K == KSeq && s.Elem.Elem.K == KRef {
		// heap closure for a havocked slice of references (object-level loop frame): its elements are allocated objects
		ex.regSV("alloc", SInt)
		al := ex.get(st, "alloc")
		el := s.Elem.Elem
		nth := sqNth(v, "q_k", el)
		ex.vc.assume("(forall ((q_k Int)) (! (=> (and (<= 0 q_k) (< q_k " + sqLen(v, el) + ")) (and (>= " + nth + " 0) (<= " + nth + " " + al + "))) :pattern (" + nth + ")))")
	}
	if ex.safety && s.K == KArr && s.Elem.K == KSeq && (s.Elem.Elem.K == KAny || s.Elem.Elem.K == KRef && s.Elem.Elem.Name != "" && s.Elem.Elem.Name != "cell") {
		el := s.Elem.Elem
		nn := "(> " + sqNth(v, "q_k", el) + " 0)"
		if el.K == KAny {
			nn = ex.nnAny(sqNth(v, "q_k", el), ex.fieldElemType(sf[0], sf[1]))
		}
		ex.vc.assume("(forall ((q_k Int)) (! (=> (and (<= 0 q_k) (< q_k " + sqLen(v, el) + ")) " + nn + ") :pattern (" + sqNth(v, "q_k", el) + ")))")
	}
	ex.inFieldInv = true
	defer func() { ex.inFieldInv = false }()
	for _, inv := range ex.fieldInvs(sf[0], sf[1]) {
		env := &Env{ex: ex, vars: map[string]*Val{"$v": {T: v, S: s.Elem}, "$o": {T: o, S: SRef(sf[0])}}, cur: st, old: st}
		ex.vc.assume(ex.trBool(inv.Expr, env))
	}
}

// fieldInvs returns the field invariants in force: safety-only invariants count in safety mode only.
func (ex *Exec) fieldInvs(st, f string) []Clause {
	all := ex.cs.FieldInvs[st+"."+f]
	if ex.safety {
		return all
	}
	var out []Clause
	for _, c := range all {
		if !c.SafetyOnly {
			out = append(out, c)
		}
	}
	return out
}
func (ex *Exec) cellVar(s *Sort) string {
	return ex.regSV("C_"+s.Ident(), SArr(SInt, s))
}
func (ex *Exec) mapDomVar(ms *Sort) string {
	return ex.regSV("MD_"+ms.Key.Ident()+"_"+ms.Val.Ident(), SArr(SInt, SArr(ms.Key, SBool)))
}
func (ex *Exec) mapValVar(ms *Sort) string {
	return ex.regSV("MV_"+ms.Key.Ident()+"_"+ms.Val.Ident(), SArr(SInt, SArr(ms.Key, ms.Val)))
}

func (ex *Exec) load(st *State, lp *LPath) string {
	switch lp.Kind {
	case "field":
		return "(select " + ex.get(st, ex.fieldVar(lp.Struct, lp.Field, lp.Sort)) + " " + lp.Ref + ")"
	case "cell":
		return "(select " + ex.get(st, ex.cellVar(lp.Sort)) + " " + lp.Ref + ")"
	case "global":
		return ex.get(st, lp.Var)
	case "index":
		base := ex.load(st, lp.Base)
		if lp.Base.Sort.K == KString {
			return "(str.to_code (str.at " + base + " " + lp.Idx + "))"
		}
		return ex.vc.nth(base, lp.Idx, lp.Base.Sort.Elem)
	case "sub":
		return "(" + lp.Struct + "_" + lp.Field + " " + ex.load(st, lp.Base) + ")"
	case "value":
		return lp.Ref
	}
	ex.vc.unsupported("load through " + lp.Kind + " pointer")
	return ex.vc.fresh("opaque_load", lp.Sort)
}

func (ex *Exec) store(st *State, lp *LPath, v string) {
	switch lp.Kind {
	case "field":
		name := ex.fieldVar(lp.Struct, lp.Field, lp.Sort)
		ex.set(st, name, "(store "+ex.get(st, name)+" "+lp.Ref+" "+v+")")
	case "cell":
		name := ex.cellVar(lp.Sort)
		ex.set(st, name, "(store "+ex.get(st, name)+" "+lp.Ref+" "+v+")")
	case "global":
		ex.set(st, lp.Var, v)
	case "index":
		base := ex.load(st, lp.Base)
		var nv string
		if lp.Base.Sort.K == KString {
			nv = "(str.++ (str.substr " + base + " 0 " + lp.Idx + ") (str.from_code " + v + ") (str.substr " + base + " (+ " + lp.Idx + " 1) (str.len " + base + ")))"
		} else {
			el := lp.Base.Sort.Elem
			nv = sqUpd(base, lp.Idx, v, el)
		}
		ex.store(st, lp.Base, nv)
	case "sub":
		base := ex.load(st, lp.Base)
		si := ex.w.datas[lp.Struct]
		parts := []string{"(mk_" + lp.Struct}
		for _, f := range si.Fields {
			if f.Name == lp.Field {
				parts = append(parts, v)
			} else {
				parts = append(parts, "("+lp.Struct+"_"+f.Name+" "+base+")")
			}
		}
		ex.store(st, lp.Base, strings.Join(parts, " ")+")")
	default:
		ex.vc.unsupported("store through " + lp.Kind + " pointer")
	}
}

// alloc returns a fresh reference strictly above every reference allocated so far.
func (ex *Exec) alloc(st *State, hint string) string {
	ex.regSV("alloc", SInt)
	r := ex.vc.fresh("new_"+hint, SInt)
	ex.vc.assume("(> " + r + " " + ex.get(st, "alloc") + ")")
	ex.vc.assume("(> " + r + " 0)")
	st.vars["alloc"] = r
	if ex.freshRefs == nil {
		ex.freshRefs = map[string]bool{}
	}
	ex.freshRefs[r] = true
	return r
}

// guardCheck (lock-check mode): an access to a field declared "guarded" needs the object's mutex, unless the
// object was allocated by the function being verified (not yet shared).
func (fr *Frame) guardCheck(ins ssa.Instruction, st, f, ref, how string) {
	ex := fr.ex
	if !ex.lockCheck || ex.cs == nil {
		return
	}
	gd := ex.cs.Guards[st+"."+f]
	if gd == nil || gd.Kind != "guarded" || ex.freshRefs[ref] {
		return
	}
	h := ex.get(fr.cur, fr.ghost("held"))
	ex.vc.oblige("guard", ex.oblName(fmt.Sprintf("%s/guard@%s.%s:%s", fr.key, st, f, how)), fr.curReach, "(select "+h+" "+ref+")", "the mutex of the object is held when "+st+"."+f+" is accessed ("+how+")", ex.posOf(ins.Pos()), nil)
}

// assumeAllocated states that a reference read from the heap is not above the allocation top.
func (ex *Exec) assumeAllocated(st *State, t string) {
	ex.regSV("alloc", SInt)
	ex.vc.assume("(and (>= " + t + " 0) (<= " + t + " " + ex.get(st, "alloc") + "))")
}

func (fr *Frame) setVal(v ssa.Value, val *Val) {
	if val.GoT == nil {
		val.GoT = v.Type()
	}
	fr.vals[v] = val
}

func (fr *Frame) safety(kind string, ins ssa.Instruction, goal string, what string) {
	ex := fr.ex
	if !ex.safety {
		return
	}
	name := ex.oblName(fmt.Sprintf("%s/%s@%s", fr.key, kind, what))
	ex.vc.oblige(kind, name, fr.curReach, goal, what, ex.posOf(ins.Pos()), nil)
	// after the check, execution continues only if it held
	ex.vc.assume(imp(fr.curReach, goal))
}

func exprText(ex *Exec, ins ssa.Instruction) string {
	// short textual description of an instruction for obligation names
	s := ins.String()
	if v, ok := ins.(ssa.Value); ok {
		s = strings.TrimPrefix(s, v.Name()+" = ")
	}
	if len(s) > 60 {
		s = s[:60]
	}
	return s
}

func (fr *Frame) execInstr(ins ssa.Instruction) {
	ex := fr.ex
	vc := ex.vc
	w := ex.w
	st := fr.cur
	switch i := ins.(type) {
	case *ssa.DebugRef:
		return
	case *ssa.Alloc:
		elem := i.Type().(*types.Pointer).Elem()
		if si, ok := w.structOf(elem); ok && !isTimeTime(elem) {
			r := ex.alloc(st, si.Name)
			for _, f := range si.Fields {
				ex.store(st, &LPath{Kind: "field", Ref: r, Struct: si.Name, Field: f.Name, Sort: f.Sort}, w.Zero(f.Sort))
			}
			fr.setVal(i, &Val{T: r, S: SRef(si.Name)})
			return
		}
		s := w.SortOf(elem)
		r := ex.alloc(st, "cell")
		lp := &LPath{Kind: "cell", Ref: r, Sort: s}
		if arr, ok := elem.Underlying().(*types.Array); ok {
			// array cell: initialise with n zero elements
			es := w.SortOf(arr.Elem())
			z := w.Zero(es)
			t := ""
			if s.K == KSeq {
				t = sqEmpty(s.Elem)
			}
			if s.K == KString {
				t = "\"\""
			}
			n := int(arr.Len())
			if n <= 16 && s.K == KSeq {
				for k := 0; k < n; k++ {
					if k == 0 {
						t = sqUnit(z, s.Elem)
					} else {
						t = sqApp(t, sqUnit(z, s.Elem), s.Elem)
					}
				}
			} else {
				t = vc.fresh("arr", s)
				vc.assume(eq(lenOf(t, s), smtInt(int64(n))))
			}
			ex.store(st, lp, t)
			v := &Val{T: r, S: SRef("cell"), Ptr: lp}
			v.Elems = make([]*Val, n)
			lp.ElemsOf = v
			fr.setVal(i, v)
			return
		}
		ex.store(st, lp, w.Zero(s))
		fr.setVal(i, &Val{T: r, S: SRef("cell"), Ptr: lp})
	case *ssa.FieldAddr:
		x := fr.val(i.X)
		pt := i.X.Type().Underlying().(*types.Pointer).Elem()
		si, _ := w.structOf(pt)
		var stt *types.Struct
		if si != nil {
			stt = si.T
		} else {
			stt = pt.Underlying().(*types.Struct)
		}
		f := stt.Field(i.Field)
		fs := w.SortOf(f.Type())
		if x.Ptr != nil && x.Ptr.Kind != "cell" && x.Ptr.Kind != "global" || si == nil {
			// pointer into a struct value stored somewhere
			if x.Ptr == nil || si == nil {
				vc.unsupported("field address of anonymous struct in " + fr.key)
				fr.setVal(i, &Val{T: "0", S: SRef("cell"), Ptr: &LPath{Kind: "opaque", Sort: fs}})
				return
			}
			fr.setVal(i, &Val{T: "0", S: SRef("cell"), Ptr: &LPath{Kind: "sub", Base: x.Ptr, Struct: si.Name, Field: f.Name(), Sort: fs}})
			return
		}
		fr.safety("nil-deref", ins, "(not (= "+x.T+" 0))", exprText(ex, ins))
		fr.setVal(i, &Val{T: "0", S: SRef("cell"), Ptr: &LPath{Kind: "field", Ref: x.T, Struct: si.Name, Field: f.Name(), Sort: fs}})
	case *ssa.Field:
		x := fr.val(i.X)
		si, _ := w.structOf(i.X.Type())
		if si == nil {
			vc.unsupported("field of anonymous struct value")
			s := w.SortOf(i.Type())
			fr.setVal(i, &Val{T: vc.fresh("anonfield", s), S: s})
			return
		}
		f := si.Fields[i.Field]
		fr.setVal(i, &Val{T: "(" + si.Name + "_" + f.Name + " " + x.T + ")", S: f.Sort})
	case *ssa.IndexAddr:
		x := fr.val(i.X)
		idx := fr.val(i.Index)
		var base *LPath
		var bs *Sort
		if _, isPtr := i.X.Type().Underlying().(*types.Pointer); isPtr {
			base = x.Ptr
			if base == nil {
				// pointer to array held as plain ref
				as := w.SortOf(i.X.Type().Underlying().(*types.Pointer).Elem())
				base = &LPath{Kind: "cell", Ref: x.T, Sort: as}
			}
			bs = base.Sort
		} else {
			bs = x.S
			if x.Prov != nil {
				base = x.Prov
			} else {
				base = &LPath{Kind: "value", Ref: x.T, Sort: x.S}
			}
		}
		cur := ex.load(st, base)
		if base.Kind == "value" {
			cur = x.T
		}
		fr.safety("index", ins, "(and (>= "+idx.T+" 0) (< "+idx.T+" "+lenOf(cur, bs)+"))", exprText(ex, ins))
		es := bs.Elem
		if bs.K == KString {
			es = SInt
		}
		lp := &LPath{Kind: "index", Base: base, Idx: idx.T, Sort: es}
		v := &Val{T: "0", S: SRef("cell"), Ptr: lp}
		if x.Elems != nil {
			lp.ElemsOf = x
		} else if base.ElemsOf != nil {
			lp.ElemsOf = base.ElemsOf
		}
		if c, ok := i.Index.(*ssa.Const); ok && lp.ElemsOf != nil {
			if n, ok := constant.Int64Val(c.Value); ok {
				lp.Var = fmt.Sprint(n)
			}
		}
		fr.setVal(i, v)
	case *ssa.Index:
		x := fr.val(i.X)
		idx := fr.val(i.Index)
		fr.safety("index", ins, "(and (>= "+idx.T+" 0) (< "+idx.T+" "+lenOf(x.T, x.S)+"))", exprText(ex, ins))
		if x.S.K == KString {
			fr.setVal(i, &Val{T: "(str.to_code (str.at " + x.T + " " + idx.T + "))", S: SInt})
		} else {
			fr.setVal(i, &Val{T: ex.vc.nth(x.T, idx.T, x.S.Elem), S: x.S.Elem})
		}
	case *ssa.Lookup:
		x := fr.val(i.X)
		k := fr.val(i.Index)
		if x.S.K == KString {
			fr.safety("index", ins, "(and (>= "+k.T+" 0) (< "+k.T+" (str.len "+x.T+")))", exprText(ex, ins))
			fr.setVal(i, &Val{T: "(str.to_code (str.at " + x.T + " " + k.T + "))", S: SInt})
			return
		}
		ms := x.S
		if ms.Key == nil {
			ms = w.SortOf(i.X.Type())
		}
		dom := "(select (select " + ex.get(st, ex.mapDomVar(ms)) + " " + x.T + ") " + k.T + ")"
		raw := "(select (select " + ex.get(st, ex.mapValVar(ms)) + " " + x.T + ") " + k.T + ")"
		val := vc.define("mapget", ms.Val, ite(dom, raw, w.Zero(ms.Val)))
		if ms.Val.K == KRef {
			ex.assumeAllocated(st, val)
			if ex.safety && ms.Val.Name != "" && ms.Val.Name != "cell" {
				// maps of pointers hold no nil values (checked at every update in safety mode)
				vc.assume(imp(dom, "(> "+raw+" 0)"))
			}
		}
		if ms.Val.K == KAny && ex.safety {
			vc.assume(imp(dom, ex.nnAny(raw, mapElemType(i.X.Type()))))
		}
		if i.CommaOk {
			fr.setVal(i, &Val{S: &Sort{K: KTuple}, Tup: []*Val{{T: val, S: ms.Val}, {T: dom, S: SBool}}})
		} else {
			fr.setVal(i, &Val{T: val, S: ms.Val})
		}
	case *ssa.MapUpdate:
		m := fr.val(i.Map)
		k := fr.val(i.Key)
		v := fr.val(i.Value)
		ms := w.SortOf(i.Map.Type())
		fr.safety("nil-map-write", ins, "(not (= "+m.T+" 0))", exprText(ex, ins))
		if ms.Val.K == KRef && ms.Val.Name != "" && ms.Val.Name != "cell" {
			fr.safety("nil-elem", ins, "(> "+v.T+" 0)", "map value "+exprText(ex, ins))
		}
		if ms.Val.K == KAny {
			fr.safety("nil-elem", ins, ex.nnAny(v.T, mapElemType(i.Map.Type())), "map value "+exprText(ex, ins))
		}
		dn, vn := ex.mapDomVar(ms), ex.mapValVar(ms)
		ex.set(st, dn, "(store "+ex.get(st, dn)+" "+m.T+" (store (select "+ex.get(st, dn)+" "+m.T+") "+k.T+" true))")
		ex.set(st, vn, "(store "+ex.get(st, vn)+" "+m.T+" (store (select "+ex.get(st, vn)+" "+m.T+") "+k.T+" "+v.T+"))")
	case *ssa.Store:
		a := fr.val(i.Addr)
		v := fr.val(i.Val)
		if a.Ptr == nil {
			// plain reference to a cell (pointer to non-struct) or whole-struct store
			pt := i.Addr.Type().Underlying().(*types.Pointer).Elem()
			if si, ok := w.structOf(pt); ok && !isTimeTime(pt) {
				for _, f := range si.Fields {
					ex.store(st, &LPath{Kind: "field", Ref: a.T, Struct: si.Name, Field: f.Name, Sort: f.Sort}, "("+si.Name+"_"+f.Name+" "+v.T+")")
				}
				return
			}
			ex.store(st, &LPath{Kind: "cell", Ref: a.T, Sort: w.SortOf(pt)}, v.T)
			return
		}
		if a.Ptr.Kind == "index" && a.Ptr.ElemsOf != nil && a.Ptr.Var != "" {
			var n int
			fmt.Sscan(a.Ptr.Var, &n)
			if n >= 0 && n < len(a.Ptr.ElemsOf.Elems) {
				a.Ptr.ElemsOf.Elems[n] = v
			}
		}
		if a.Ptr.Kind == "field" && ex.safety && a.Ptr.Sort.K == KSeq && (a.Ptr.Sort.Elem.K == KAny || a.Ptr.Sort.Elem.K == KRef && a.Ptr.Sort.Elem.Name != "" && a.Ptr.Sort.Elem.Name != "cell") {
			el := a.Ptr.Sort.Elem
			nn := "(> " + sqNth(v.T, "q_k", el) + " 0)"
			if el.K == KAny {
				nn = ex.nnAny(sqNth(v.T, "q_k", el), ex.fieldElemType(a.Ptr.Struct, a.Ptr.Field))
			}
			fr.safety("nil-elem", ins, "(forall ((q_k Int)) (=> (and (<= 0 q_k) (< q_k "+sqLen(v.T, el)+")) "+nn+"))", "elements of "+a.Ptr.Struct+"."+a.Ptr.Field)
		}
		if a.Ptr.Kind == "field" {
			fr.guardCheck(ins, a.Ptr.Struct, a.Ptr.Field, a.Ptr.Ref, "store")
		}
		if v.Borrow != nil && (a.Ptr.Kind == "field" || a.Ptr.Kind == "global" || a.Ptr.Kind == "index") {
			fr.ownBytes(ins, v, "stored in the heap")
		}
		if a.Ptr.Kind == "field" && v.S.K == KAny && ex.safety && ex.strongIface(ex.fieldGoType(a.Ptr.Struct, a.Ptr.Field)) {
			fr.safety("boxed-nil", ins, wfIface(v.T), "store to "+a.Ptr.Struct+"."+a.Ptr.Field)
		}
		if a.Ptr.Kind == "field" {
			for k, inv := range ex.fieldInvs(a.Ptr.Struct, a.Ptr.Field) {
				env := &Env{ex: ex, vars: map[string]*Val{"$v": v, "$o": {T: a.Ptr.Ref, S: SRef(a.Ptr.Struct)}}, cur: st, old: st, fr: fr}
				g := ex.trBool(inv.Expr, env)
				if ex.topFn != nil {
					vc.oblige("fieldinv", ex.oblName(fmt.Sprintf("%s/fieldinv@%s.%s:%d", ex.vc.fn, a.Ptr.Struct, a.Ptr.Field, k)), fr.curReach, g, inv.Src, ex.posOf(ins.Pos()), nil)
				}
			}
		}
		if a.Ptr.Kind == "index" && a.Ptr.Base.Kind == "value" {
			vc.unsupported("store into slice element without provenance in " + fr.key + " at " + ex.posOf(ins.Pos()))
			return
		}
		ex.store(st, a.Ptr, v.T)
	case *ssa.UnOp:
		x := fr.val(i.X)
		switch i.Op {
		case token.MUL: // load
			if x.Ptr != nil {
				t := ex.load(st, x.Ptr)
				s := x.Ptr.Sort
				v := &Val{T: vc.define(i.Name(), s, t), S: s}
				if s.K == KSeq || s.K == KString {
					v.Prov = x.Ptr
				}
				if s.K == KRef {
					ex.assumeAllocated(st, v.T)
				}
				if s.K == KAny {
					vc.assume("(anyWF " + v.T + ")")
				}
				if x.Ptr.LibErr {
					vc.assume(not(eq(v.T, "anyNil")))
				}
				if x.Ptr.Kind == "field" {
					fr.guardCheck(ins, x.Ptr.Struct, x.Ptr.Field, x.Ptr.Ref, "load")
				}
				if ex.safety && s.K == KAny && x.Ptr.Kind == "field" && ex.strongIface(ex.fieldGoType(x.Ptr.Struct, x.Ptr.Field)) {
					vc.assume(wfIface(v.T))
				}
				if x.Ptr.Kind == "field" && ex.safety {
					for _, inv := range ex.cs.FieldAsms[x.Ptr.Struct+"."+x.Ptr.Field] {
						env := &Env{ex: ex, vars: map[string]*Val{"$v": v, "$o": {T: x.Ptr.Ref, S: SRef(x.Ptr.Struct)}}, cur: st, old: st, fr: fr}
						vc.assume(imp(fr.curReach, ex.trBool(inv.Expr, env)))
						vc.note("assumed lifecycle/configuration fact: " + x.Ptr.Struct + "." + x.Ptr.Field + ": " + inv.Src)
					}
				}
				if x.Ptr.Kind == "field" {
					for _, inv := range ex.fieldInvs(x.Ptr.Struct, x.Ptr.Field) {
						env := &Env{ex: ex, vars: map[string]*Val{"$v": v, "$o": {T: x.Ptr.Ref, S: SRef(x.Ptr.Struct)}}, cur: st, old: st, fr: fr}
						vc.assume(imp(fr.curReach, ex.trBool(inv.Expr, env)))
					}
				}
				if x.Ptr.ElemsOf != nil && x.Ptr.Kind == "cell" {
					v.Elems = x.Ptr.ElemsOf.Elems
				}
				fr.setVal(i, v)
				return
			}
			pt := i.X.Type().Underlying().(*types.Pointer).Elem()
			fr.safety("nil-deref", ins, "(not (= "+x.T+" 0))", exprText(ex, ins))
			if si, ok := w.structOf(pt); ok && !isTimeTime(pt) {
				// load whole struct value from heap object
				ds := w.dataOf(pt)
				parts := []string{"(mk_" + si.Name}
				for _, f := range si.Fields {
					parts = append(parts, "(select "+ex.get(st, ex.fieldVar(si.Name, f.Name, f.Sort))+" "+x.T+")")
				}
				t := strings.Join(parts, " ") + ")"
				if len(si.Fields) == 0 {
					t = "mk_" + si.Name
				}
				fr.setVal(i, &Val{T: vc.define(i.Name(), ds, t), S: ds})
				return
			}
			s := w.SortOf(pt)
			lp := &LPath{Kind: "cell", Ref: x.T, Sort: s}
			v := &Val{T: vc.define(i.Name(), s, ex.load(st, lp)), S: s}
			if s.K == KSeq || s.K == KString {
				v.Prov = lp
			}
			if s.K == KRef {
				ex.assumeAllocated(st, v.T)
			}
			fr.setVal(i, v)
		case token.NOT:
			fr.setVal(i, &Val{T: not(x.T), S: SBool})
		case token.SUB:
			fr.setVal(i, &Val{T: "(- " + x.T + ")", S: x.S})
		case token.ARROW:
			// channel receive: unconstrained value of the element type
			s := w.SortOf(i.Type())
			if i.CommaOk {
				es := s.Tuple[0]
				fr.setVal(i, &Val{S: s, Tup: []*Val{fr.havocVal("recv", es), {T: vc.fresh("recvok", SBool), S: SBool}}})
			} else {
				rv := fr.havocVal("recv", s)
				rv.GoT = i.Type()
				fr.assumeNonNilReceived(rv)
				fr.chanInv(i, i.Type(), rv, false)
				fr.setVal(i, rv)
			}
		case token.XOR:
			s := w.SortOf(i.Type())
			fr.setVal(i, &Val{T: vc.fresh("xor", s), S: s})
		default:
			vc.unsupported("unop " + i.Op.String())
			s := w.SortOf(i.Type())
			fr.setVal(i, &Val{T: vc.fresh("unop", s), S: s})
		}
	case *ssa.BinOp:
		fr.setVal(i, fr.binop(i))
	case *ssa.Phi:
		// handled at block entry
	case *ssa.Extract:
		t := fr.val(i.Tuple)
		if t.Tup == nil || i.Index >= len(t.Tup) {
			s := w.SortOf(i.Type())
			fr.setVal(i, fr.havocVal("extract", s))
			return
		}
		fr.setVal(i, t.Tup[i.Index])
	case *ssa.ChangeType:
		x := fr.val(i.X)
		nv := *x
		nv.GoT = i.Type()
		fr.setVal(i, &nv)
	case *ssa.Convert:
		fr.setVal(i, fr.convert(i))
	case *ssa.ChangeInterface:
		x := fr.val(i.X)
		nv := *x
		nv.GoT = i.Type()
		fr.setVal(i, &nv)
	case *ssa.MakeInterface:
		x := fr.val(i.X)
		id := w.TypeID(i.X.Type())
		var t string
		switch x.S.K {
		case KString:
			t = fmt.Sprintf("(mkAny %d 0 %s)", id, x.T)
		case KInt, KRef:
			t = fmt.Sprintf("(mkAny %d %s \"\")", id, x.T)
		case KBool:
			t = fmt.Sprintf("(mkAny %d (ite %s 1 0) \"\")", id, x.T)
		default:
			// struct values etc: box through an uninterpreted injection
			t = fmt.Sprintf("(mkAny %d (box_%s %s) \"\")", id, x.S.Ident(), x.T)
			vc.declareBox(x.S)
		}
		v := &Val{T: vc.define(i.Name(), SAny, t), S: SAny}
		v.Elems = []*Val{x} // remember the boxed value for fmt expansion
		v.Dyn = i.X.Type()
		v.Clo = x.Clo
		fr.setVal(i, v)
	case *ssa.TypeAssert:
		x := fr.val(i.X)
		s := w.SortOf(i.AssertedType)
		var ok, payload string
		if _, isIface := i.AssertedType.Underlying().(*types.Interface); isIface {
			// assertion to an interface type: succeeds iff dynamic type implements it (abstract)
			ok = vc.fresh("implements", SBool)
			vc.assume(imp(eq(x.T, "anyNil"), not(ok)))
			payload = x.T
		} else {
			id := w.TypeID(i.AssertedType)
			ok = fmt.Sprintf("(= (tyOf %s) %d)", x.T, id)
			switch s.K {
			case KString:
				payload = "(strOf " + x.T + ")"
			case KInt, KRef:
				payload = "(refOf " + x.T + ")"
			case KBool:
				payload = "(= (refOf " + x.T + ") 1)"
			default:
				payload = "(unbox_" + s.Ident() + " (refOf " + x.T + "))"
				vc.declareBox(s)
			}
		}
		if i.CommaOk {
			pv := vc.define(i.Name(), s, ite(ok, payload, w.Zero(s)))
			fr.setVal(i, &Val{S: &Sort{K: KTuple}, Tup: []*Val{{T: pv, S: s, GoT: i.AssertedType}, {T: ok, S: SBool}}})
		} else {
			fr.safety("type-assert", ins, ok, exprText(ex, ins))
			fr.setVal(i, &Val{T: vc.define(i.Name(), s, payload), S: s})
		}
	case *ssa.MakeSlice:
		s := w.SortOf(i.Type())
		n := fr.val(i.Len)
		fr.safety("make-len", ins, "(>= "+n.T+" 0)", exprText(ex, ins))
		fr.allocBounded(ins, n)
		if c, ok := i.Len.(*ssa.Const); ok {
			if k, ok := constant.Int64Val(c.Value); ok && k == 0 {
				fr.setVal(i, &Val{T: w.Zero(s), S: s})
				return
			}
		}
		t := vc.fresh("mkslice", s)
		vc.assume(imp(fr.curReach, eq(lenOf(t, s), n.T)))
		fr.setVal(i, &Val{T: t, S: s})
	case *ssa.MakeMap:
		ms := w.SortOf(i.Type())
		r := ex.alloc(st, "map")
		dn := ex.mapDomVar(ms)
		ex.set(st, dn, "(store "+ex.get(st, dn)+" "+r+" ((as const "+SArr(ms.Key, SBool).SMT()+") false))")
		fr.setVal(i, &Val{T: r, S: ms})
	case *ssa.MakeChan:
		r := ex.alloc(st, "chan")
		fr.setVal(i, &Val{T: r, S: SRef("chan")})
	case *ssa.MakeClosure:
		r := ex.alloc(st, "closure")
		cfn := i.Fn.(*ssa.Function)
		clo := &Closure{Fn: cfn}
		for k, b := range i.Bindings {
			bv := fr.val(b)
			clo.Bindings = append(clo.Bindings, bv)
			// safety mode: the closure body assumes captured pointers / package interfaces are non-nil
			if pt, ok := cfn.FreeVars[k].Type().Underlying().(*types.Pointer); ok && ex.safety && capturedNonNil(ex, pt.Elem()) {
				es := w.SortOf(pt.Elem())
				cell := "(select " + ex.get(st, ex.cellVar(es)) + " " + bv.T + ")"
				if bv.Ptr != nil {
					cell = ex.load(st, bv.Ptr)
				}
				if es.K == KRef {
					fr.safety("nil-capture", ins, "(> "+cell+" 0)", "captured "+cfn.FreeVars[k].Name())
				} else {
					fr.safety("nil-capture", ins, ex.nnAny(cell, pt.Elem()), "captured "+cfn.FreeVars[k].Name())
				}
			}
		}
		fr.setVal(i, &Val{T: r, S: SRef("func"), Clo: clo})
	case *ssa.Slice:
		fr.setVal(i, fr.sliceOp(i))
	case *ssa.Range:
		x := fr.val(i.X)
		fr.setVal(i, &Val{T: x.T, S: x.S, GoT: i.X.Type()})
	case *ssa.Next:
		fr.nextOp(i)
	case *ssa.Select:
		s := w.SortOf(i.Type())
		v := &Val{S: s}
		for _, ts := range s.Tuple {
			v.Tup = append(v.Tup, fr.havocVal("select", ts))
		}
		// index in range
		vc.assume(fmt.Sprintf("(and (>= %s 0) (< %s %d))", v.Tup[0].T, v.Tup[0].T, len(i.States)))
		for k := 2; k < len(v.Tup); k++ {
			fr.assumeNonNilReceived(v.Tup[k])
		}
		ri := 2
		for _, stt := range i.States {
			if stt.Dir == types.RecvOnly && ri < len(v.Tup) {
				if ct, ok := stt.Chan.Type().Underlying().(*types.Chan); ok {
					fr.chanInv(i, ct.Elem(), v.Tup[ri], false)
				}
				ri++
			}
		}
		fr.setVal(i, v)
	case *ssa.Send:
		fr.ghostSend(i)
	case *ssa.Go:
		// a "spawn <func>" contract records the spawn in ghost state (pending atomic call)
		if callee, ok := i.Call.Value.(*ssa.Function); ok && callee.Pkg == ex.pkg {
			key := "spawn " + ex.fnKey(callee)
			if c, ok := ex.cs.Funcs[key]; ok {
				args := []*Val{}
				for _, a := range i.Call.Args {
					args = append(args, fr.val(a))
				}
				fr.applyContract(ins, c, key, callee, callee.Signature, nil, args, SUnit)
				return
			}
		}
		vc.note("go statement: spawned call has no effect on the spawning function's state")
	case *ssa.Defer:
		fr.defers = append(fr.defers, i)
	case *ssa.RunDefers:
		for k := len(fr.defers) - 1; k >= 0; k-- {
			d := fr.defers[k]
			fr.execCall(d, &d.Call, nil)
		}
	case *ssa.Call:
		fr.execCall(i, &i.Call, i)
	case *ssa.Return:
		vals := []*Val{}
		for _, r := range i.Results {
			vals = append(vals, fr.val(r))
		}
		if ex.depth == 0 && i.Parent() == ex.topFn {
			var c *Contract
			if ex.cs != nil {
				c = ex.cs.Funcs[ex.fnKey(ex.topFn)]
			}
			for k, v := range vals {
				if v.Borrow == nil {
					continue
				}
				if c != nil && c.BorrowedResult != "" && k == 0 {
					// declared: the result may alias the named reader's buffer, and is still valid on return
					if pv, ok := fr.params[c.BorrowedResult]; ok {
						re := ex.get(fr.cur, fr.ghost("RE"))
						g := imp(v.Borrow.Active, and(eq(v.Borrow.Reader, pv.T), eq("(select "+re+" "+v.Borrow.Reader+")", v.Borrow.Epoch)))
						vc.oblige("borrow", ex.oblName(fr.key+"/borrow-result"), fr.curReach, g, "a borrowed result aliases the declared reader and is still valid on return", ex.posOf(ins.Pos()), nil)
						continue
					}
				}
				fr.ownBytes(ins, v, fmt.Sprintf("result %d", k))
			}
		}
		if ex.safety && ex.depth == 0 && i.Parent() == ex.topFn {
			rs := i.Parent().Signature.Results()
			for k, v := range vals {
				if k < rs.Len() && v.S.K == KAny && ex.strongIface(rs.At(k).Type()) {
					g := wfIface(v.T)
					if n := rs.Len(); n > 1 && rs.At(n-1).Type().String() == "error" {
						g = or(not(eq(vals[n-1].T, "anyNil")), g) // only promised together with a nil error
					}
					fr.safety("boxed-nil", ins, g, fmt.Sprintf("result %d", k))
				}
			}
		}
		fr.rets = append(fr.rets, retSite{reach: fr.curReach, vals: vals, st: fr.cur.Clone()})
	case *ssa.Panic:
		if ex.safety {
			vc.oblige("panic", ex.oblName(fr.key+"/no-explicit-panic"), fr.curReach, "false", "panic()", ex.posOf(ins.Pos()), nil)
		}
	case *ssa.Jump:
		b := i.Block()
		fr.doEdge(b, b.Succs[0], fr.curReach)
	case *ssa.If:
		b := i.Block()
		c := fr.val(i.Cond)
		fr.doEdge(b, b.Succs[0], and(fr.curReach, c.T))
		fr.doEdge(b, b.Succs[1], and(fr.curReach, not(c.T)))
	default:
		vc.unsupported(fmt.Sprintf("instruction %T in %s", ins, fr.key))
		if v, ok := ins.(ssa.Value); ok {
			fr.setVal(v, fr.havocVal("unsup", w.SortOf(v.Type())))
		}
	}
}

func (vc *VC) declareBox(s *Sort) {
	name := "box_" + s.Ident()
	if vc.declared[name] {
		return
	}
	vc.declared[name] = true
	vc.cmds = append(vc.cmds, fmt.Sprintf("(declare-fun box_%s (%s) Int)", s.Ident(), s.SMT()))
	vc.cmds = append(vc.cmds, fmt.Sprintf("(declare-fun unbox_%s (Int) %s)", s.Ident(), s.SMT()))
	vc.cmds = append(vc.cmds, fmt.Sprintf("(assert (forall ((x %s)) (! (= (unbox_%s (box_%s x)) x) :pattern ((box_%s x)))))", s.SMT(), s.Ident(), s.Ident(), s.Ident()))
}

func (fr *Frame) havocVal(hint string, s *Sort) *Val {
	ex := fr.ex
	if s.K == KTuple {
		v := &Val{S: s}
		for _, ts := range s.Tuple {
			v.Tup = append(v.Tup, fr.havocVal(hint, ts))
		}
		return v
	}
	if s.K == KUnit {
		return &Val{T: "false", S: s}
	}
	v := &Val{T: ex.vc.fresh(hint, s), S: s}
	if s.K == KRef {
		ex.vc.assume("(>= " + v.T + " 0)")
	}
	if s.K == KAny {
		ex.vc.assume("(anyWF " + v.T + ")")
	}
	return v
}

func (fr *Frame) doEdge(from, to *ssa.BasicBlock, cond string) {
	if fr.isBackEdge(from, to) {
		if li := fr.loops[to.Index]; li != nil {
			fr.checkBackEdge(from, li, cond)
		}
		return
	}
	fr.edge[[2]int{from.Index, to.Index}] = fr.ex.vc.define(fmt.Sprintf("edge_%d_%d", from.Index, to.Index), SBool, cond)
}

func lenOf(t string, s *Sort) string {
	if s.K == KString {
		return "(str.len " + t + ")"
	}
	return sqLen(t, s.Elem)
}

func (fr *Frame) binop(i *ssa.BinOp) *Val {
	ex := fr.ex
	x := fr.val(i.X)
	y := fr.val(i.Y)
	s := ex.w.SortOf(i.Type())
	xs := x.S
	mk := func(t string, s *Sort) *Val { return &Val{T: t, S: s} }
	switch i.Op {
	case token.ADD:
		if xs.K == KString {
			return mk("(str.++ "+x.T+" "+y.T+")", SString)
		}
		return mk("(+ "+x.T+" "+y.T+")", s)
	case token.SUB:
		return mk("(- "+x.T+" "+y.T+")", s)
	case token.MUL:
		return mk("(* "+x.T+" "+y.T+")", s)
	case token.QUO:
		if xs.K == KReal {
			return mk("(/ "+x.T+" "+y.T+")", s)
		}
		fr.safety("div-zero", i, "(not (= "+y.T+" 0))", exprText(ex, i))
		return mk("(go_div "+x.T+" "+y.T+")", s)
	case token.REM:
		fr.safety("div-zero", i, "(not (= "+y.T+" 0))", exprText(ex, i))
		return mk("(go_mod "+x.T+" "+y.T+")", s)
	case token.EQL, token.NEQ:
		var t string
		if xs.K == KSeq || (xs.K == KString && isSliceType(i.X.Type())) {
			// slice compared with nil: modelled as emptiness
			other := y
			if c, ok := i.X.(*ssa.Const); ok && c.Value == nil {
				other = y
			} else {
				other = x
			}
			t = "(= " + lenOf(other.T, other.S) + " 0)"
			ex.vc.note("slice==nil modelled as len==0")
		} else {
			t = eq(x.T, y.T)
		}
		if i.Op == token.NEQ {
			t = not(t)
		}
		return mk(t, SBool)
	case token.LSS, token.LEQ, token.GTR, token.GEQ:
		op := map[token.Token]string{token.LSS: "<", token.LEQ: "<=", token.GTR: ">", token.GEQ: ">="}[i.Op]
		if xs.K == KString {
			switch i.Op {
			case token.LSS:
				return mk("(str.< "+x.T+" "+y.T+")", SBool)
			case token.LEQ:
				return mk("(str.<= "+x.T+" "+y.T+")", SBool)
			case token.GTR:
				return mk("(str.< "+y.T+" "+x.T+")", SBool)
			default:
				return mk("(str.<= "+y.T+" "+x.T+")", SBool)
			}
		}
		return mk("("+op+" "+x.T+" "+y.T+")", SBool)
	case token.LAND, token.AND:
		if xs.K == KBool {
			return mk(and(x.T, y.T), SBool)
		}
	case token.LOR, token.OR:
		if xs.K == KBool {
			return mk(or(x.T, y.T), SBool)
		}
	}
	ex.vc.note("bit operation " + i.Op.String() + " abstracted")
	return mk(ex.vc.fresh("binop", s), s)
}

func isSliceType(t types.Type) bool {
	_, ok := t.Underlying().(*types.Slice)
	return ok
}

func (fr *Frame) convert(i *ssa.Convert) *Val {
	ex := fr.ex
	x := fr.val(i.X)
	from := x.S
	to := ex.w.SortOf(i.Type())
	switch {
	case sameSort(from, to):
		fr.useBytes(i, x, "conversion")
		nv := *x
		nv.GoT = i.Type()
		nv.Prov = nil
		nv.Borrow = nil
		return &nv
	case from.K == KInt && to.K == KReal:
		return &Val{T: "(to_real " + x.T + ")", S: to}
	case from.K == KReal && to.K == KInt:
		return &Val{T: "(to_int " + x.T + ")", S: to}
	case from.K == KInt && to.K == KString:
		return &Val{T: "(str.from_code " + x.T + ")", S: to}
	case (from.K == KRef) && to.K == KRef:
		nv := *x
		nv.S = to
		return &nv
	}
	ex.vc.unsupported(fmt.Sprintf("conversion %s -> %s", from, to))
	return fr.havocVal("conv", to)
}

func (fr *Frame) sliceOp(i *ssa.Slice) *Val {
	ex := fr.ex
	x := fr.val(i.X)
	var cur string
	var s *Sort
	if _, isPtr := i.X.Type().Underlying().(*types.Pointer); isPtr {
		lp := x.Ptr
		if lp == nil {
			as := ex.w.SortOf(i.X.Type().Underlying().(*types.Pointer).Elem())
			lp = &LPath{Kind: "cell", Ref: x.T, Sort: as}
		}
		cur = ex.load(fr.cur, lp)
		s = lp.Sort
	} else {
		cur = x.T
		s = x.S
	}
	lo := "0"
	if i.Low != nil {
		lo = fr.val(i.Low).T
	}
	n := lenOf(cur, s)
	hi := n
	if i.High != nil {
		hi = fr.val(i.High).T
	}
	if i.Low != nil || i.High != nil {
		// Go checks 0 <= lo <= hi <= cap; with value semantics cap is abstracted to len
		fr.safety("slice-bounds", i, "(and (<= 0 "+lo+") (<= "+lo+" "+hi+") (<= "+hi+" "+n+"))", exprText(ex, i))
	}
	var t string
	if i.Low == nil && i.High == nil {
		t = cur
	} else if s.K == KString {
		t = "(str.substr " + cur + " " + lo + " (- " + hi + " " + lo + "))"
	} else {
		t = sqExt(cur, lo, "(- "+hi+" "+lo+")", s.Elem)
	}
	v := &Val{T: ex.vc.define(i.Name(), s, t), S: s}
	if i.Low == nil && i.High == nil && x.Elems != nil {
		v.Elems = x.Elems
	}
	if x.Ptr != nil && x.Ptr.ElemsOf != nil && i.Low == nil && i.High == nil {
		v.Elems = x.Ptr.ElemsOf.Elems
	}
	return v
}

func (fr *Frame) nextOp(i *ssa.Next) {
	ex := fr.ex
	vc := ex.vc
	w := ex.w
	it := fr.val(i.Iter)
	rng := i.Iter.(*ssa.Range)
	s := w.SortOf(i.Type())
	if i.IsString {
		v := &Val{S: s}
		for _, ts := range s.Tuple {
			v.Tup = append(v.Tup, fr.havocVal("strnext", ts))
		}
		vc.note("string range abstracted")
		fr.setVal(i, v)
		return
	}
	ms := w.SortOf(rng.X.Type())
	ok := vc.fresh("next_ok", SBool)
	k := vc.fresh("next_k", ms.Key)
	dom := "(select " + ex.get(fr.cur, ex.mapDomVar(ms)) + " " + it.T + ")"
	val := "(select (select " + ex.get(fr.cur, ex.mapValVar(ms)) + " " + it.T + ") " + k + ")"
	vc.assume(imp(ok, "(select "+dom+" "+k+")"))
	// ghost visited set
	var li *loopInfo
	for _, l := range fr.loops {
		if l.mapIter == rng {
			li = l
		}
	}
	if li != nil && li.visited != "" {
		vis := ex.get(fr.cur, li.visited)
		vc.assume(imp(ok, not("(select "+vis+" "+k+")")))
		// when iteration ends every key present has been visited
		kk := vc.fresh("anykey", ms.Key)
		_ = kk
		vc.assume(imp(and(fr.curReach, not(ok)), "(forall ((kq "+ms.Key.SMT()+")) (! (=> (select "+dom+" kq) (select "+vis+" kq)) :pattern ((select "+dom+" kq)) :pattern ((select "+vis+" kq))))"))
		ex.set(fr.cur, li.visited, ite(ok, "(store "+vis+" "+k+" true)", vis))
	}
	vv := vc.define("next_v", ms.Val, val)
	if ms.Val.K == KRef {
		ex.assumeAllocated(fr.cur, vv)
		if ex.safety && ms.Val.Name != "" && ms.Val.Name != "cell" {
			vc.assume(imp(ok, "(> "+vv+" 0)"))
		}
	}
	if ms.Val.K == KAny && ex.safety {
		vc.assume(imp(ok, ex.nnAny(vv, mapElemType(rng.X.Type()))))
	}
	fr.setVal(i, &Val{S: s, Tup: []*Val{{T: ok, S: SBool}, {T: k, S: ms.Key}, {T: vv, S: ms.Val}}})
}

// assumeNonNilReceived: in safety mode values taken from channels are non-nil pointers / interfaces /
// functions (every send in the package is checked for it).
func (fr *Frame) assumeNonNilReceived(v *Val) {
	ex := fr.ex
	if !ex.safety || v == nil {
		return
	}
	switch v.S.K {
	case KRef:
		ex.vc.assume("(> " + v.T + " 0)")
	case KAny:
		ex.vc.assume(ex.nnAny(v.T, v.GoT))
	case KData:
		// struct values carried by value: their pointer-like fields are non-nil too
		if si := ex.w.datas[v.S.Name]; si != nil {
			for _, f := range si.Fields {
				sel := "(" + si.Name + "_" + f.Name + " " + v.T + ")"
				if f.Sort.K == KRef && f.Sort.Name == "func" {
					ex.vc.assume("(> " + sel + " 0)")
				}
			}
		}
	}
}

// chanInv: invariant of values of a channel element type (assume at receive, prove at send).
func (fr *Frame) chanInv(ins ssa.Instruction, elem types.Type, v *Val, prove bool) {
	ex := fr.ex
	if ex.cs == nil || v == nil {
		return
	}
	for k, inv := range ex.cs.ChanInvs[ex.w.typeName(elem)] {
		env := &Env{ex: ex, vars: map[string]*Val{"$v": v}, cur: fr.cur, old: fr.cur, fr: fr}
		g := ex.trBool(inv.Expr, env)
		if prove {
			ex.vc.oblige("chaninv", ex.oblName(fmt.Sprintf("%s/chaninv@%s:%d", fr.key, ex.w.typeName(elem), k)), fr.curReach, g, inv.Src, ex.posOf(ins.Pos()), nil)
		} else {
			ex.vc.assume(imp(fr.curReach, g))
		}
	}
}

func (fr *Frame) ghostSend(i *ssa.Send) {
	if ct, ok := i.Chan.Type().Underlying().(*types.Chan); ok {
		fr.chanInv(i, ct.Elem(), fr.val(i.X), true)
	}
	if fr.ex.safety {
		x := fr.val(i.X)
		switch x.S.K {
		case KRef:
			fr.safety("nil-elem", i, "(> "+x.T+" 0)", "value sent on channel "+i.Chan.Name())
		case KAny:
			fr.safety("nil-elem", i, fr.ex.nnAny(x.T, i.X.Type()), "value sent on channel "+i.Chan.Name())
		}
	}
	// channel send: ghost append to the channel's event log, if declared
	fr.ex.vc.note("channel send: value handed to the receiving goroutine (no effect on local state)")
}

func (fr *Frame) allocBounded(ins ssa.Instruction, n *Val) {
	// C08: allocation size must be bounded by a constant or by data already present
	// (generated only in safety mode; the bound predicate is supplied by the checker config)
	ex := fr.ex
	if !ex.safety {
		return
	}
	if _, ok := ins.(*ssa.MakeSlice).Len.(*ssa.Const); ok {
		return
	}
	name := ex.oblName(fmt.Sprintf("%s/alloc-bounded@%s", fr.key, exprText(ex, ins)))
	ex.vc.oblige("alloc-bounded", name, fr.curReach, "(<= "+n.T+" 65536)", "make size bounded", ex.posOf(ins.Pos()), [][2]string{{"size", n.T}})
}

// nth renders sequence indexing (axiomatised sequences, see seqenc.go).
func (vc *VC) nth(s, idx string, elem *Sort) string {
	return sqNth(s, idx, elem)
}

var preludeHas = map[string]bool{}
