package main

// The frame discipline (C01): who may change the header list of a message.
//
//   - writers T.f: F1, F2, ...   every store to field f of an object the storing function did not allocate
//     itself, and every element store into the slice held by f, happens inside one of the listed functions
//     (or a closure of one). An empty list means "set at construction only".
//   - onlyvia G: F1, F2, ...     every call path from the program's entry points (main, package
//     initialisers, everything they reach, goroutines included) to G passes through one of the listed
//     functions; G is not reachable once those are removed from the call graph.
//
// With both, the places where a message's header list can change are exactly the listed functions, each of
// which carries a functional contract for the edit it makes; everything else relays the list it was given.
// The obligations are structural (decided on go/ssa and the class-hierarchy call graph, no solver).

import (
	"fmt"
	"go/types"
	"sort"
	"strings"

	"golang.org/x/tools/go/callgraph/cha"
	"golang.org/x/tools/go/ssa"
)

type FrameDecl struct {
	Kind    string // writers | onlyvia
	Target  string // "Struct.field" or a function key
	Allowed []string
	Props   []string // properties whose check decides this declaration
	Line    int
}

// outermost enclosing function of a closure
func outerFn(f *ssa.Function) *ssa.Function {
	for f.Parent() != nil {
		f = f.Parent()
	}
	return f
}

func (d *Driver) DisciplineFrames(prop string) *FuncVC {
	ex := d.newExec(nil, "discipline/frames", false)
	vc := ex.vc
	fvc := &FuncVC{Key: "discipline/frames", VC: vc}
	fail := func(kind, name, why, pos string) {
		o := vc.oblige(kind, name, "true", "false", why, pos, nil)
		o.Decided = "sat"
	}
	pass := func(kind, name, why, pos string) {
		o := vc.oblige(kind, name, "true", "true", why, pos, nil)
		o.Decided = "unsat"
	}
	key := func(f *ssa.Function) string { return f.RelString(d.pkg.Pkg) }
	allowed := func(fd *FrameDecl, f *ssa.Function) bool {
		return contains(fd.Allowed, key(outerFn(f))) || contains(fd.Allowed, key(f))
	}
	var keys []string
	for k := range d.fns {
		keys = append(keys, k)
	}
	sort.Strings(keys)
	mine := []*FrameDecl{}
	for _, fd := range d.cs.Frames {
		if contains(fd.Props, prop) {
			mine = append(mine, fd)
		}
	}
	if len(mine) == 0 {
		fail("frame-decl", "frames/declared", "no writers / onlyvia declaration found for "+prop, "")
	}
	for _, fd := range mine {
		for _, a := range fd.Allowed {
			if d.fns[a] == nil {
				fail("frame-decl", "frames/declared@"+fd.Target+":"+a, "listed function "+a+" does not exist", "")
			}
		}
		switch fd.Kind {
		case "writers":
			// which field does an address denote: a field itself, or an element of the slice a field holds
			fieldOf := func(addr ssa.Value) (string, ssa.Value, bool) {
				name := func(fa *ssa.FieldAddr) string {
					pt, ok := fa.X.Type().Underlying().(*types.Pointer)
					if !ok {
						return ""
					}
					st, ok := pt.Elem().Underlying().(*types.Struct)
					if !ok {
						return ""
					}
					return d.w.typeName(pt.Elem()) + "." + st.Field(fa.Field).Name()
				}
				switch a := addr.(type) {
				case *ssa.FieldAddr:
					return name(a), a.X, false
				case *ssa.IndexAddr:
					x := a.X
					for {
						if sl, ok := x.(*ssa.Slice); ok {
							x = sl.X
							continue
						}
						break
					}
					if ld, ok := x.(*ssa.UnOp); ok {
						if fa, ok := ld.X.(*ssa.FieldAddr); ok {
							return name(fa), fa.X, true
						}
					}
				}
				return "", nil, false
			}
			seenAllowed := map[string]bool{}
			for _, k := range keys {
				fn := d.fns[k]
				if strings.HasPrefix(k, "init@") || strings.HasSuffix(prog_file(d, fn), "_test.go") {
					continue
				}
				bad := ""
				// the map a field holds: updates and deletes through a load of the field count as writes of the field
				mapField := func(m ssa.Value) string {
					if ld, ok := m.(*ssa.UnOp); ok {
						if fa, ok := ld.X.(*ssa.FieldAddr); ok {
							if pt, ok := fa.X.Type().Underlying().(*types.Pointer); ok {
								if st, ok := pt.Elem().Underlying().(*types.Struct); ok {
									return d.w.typeName(pt.Elem()) + "." + st.Field(fa.Field).Name()
								}
							}
						}
					}
					return ""
				}
				for _, b := range fn.Blocks {
					for _, ins := range b.Instrs {
						var mpos = ins.Pos()
						mf := ""
						switch x := ins.(type) {
						case *ssa.MapUpdate:
							mf = mapField(x.Map)
						case *ssa.Call:
							if bi, ok := x.Call.Value.(*ssa.Builtin); ok && (bi.Name() == "delete" || bi.Name() == "clear") && len(x.Call.Args) > 0 {
								mf = mapField(x.Call.Args[0])
							}
						}
						if mf == fd.Target {
							if allowed(fd, fn) {
								seenAllowed[key(outerFn(fn))] = true
							} else if bad == "" {
								bad = d.prog.Fset.Position(mpos).String()
							}
							continue
						}
						st, ok := ins.(*ssa.Store)
						if !ok {
							continue
						}
						fname, obj, elem := fieldOf(st.Addr)
						if fname != fd.Target {
							continue
						}
						if !elem && isLocalAlloc(obj) {
							continue // initialising an object this function has just allocated
						}
						if allowed(fd, fn) {
							seenAllowed[key(outerFn(fn))] = true
							continue
						}
						if bad == "" {
							bad = d.prog.Fset.Position(st.Pos()).String()
						}
					}
				}
				if bad != "" {
					fail("frame-writers", fmt.Sprintf("frames/writers@%s in %s", fd.Target, k),
						fmt.Sprintf("%s is written in %s, which is not one of its declared writers %v", fd.Target, k, fd.Allowed), bad)
				}
			}
			pass("frame-writers", "frames/writers@"+fd.Target, fmt.Sprintf("%s is written only in %v (and while constructing a fresh object)", fd.Target, fd.Allowed), "")
		case "onlyvia":
			target := d.fns[fd.Target]
			if target == nil {
				fail("frame-decl", "frames/declared@"+fd.Target, "function "+fd.Target+" does not exist", "")
				continue
			}
			cg := cha.CallGraph(d.prog)
			parent := map[*ssa.Function]*ssa.Function{}
			var work []*ssa.Function
			visit := func(from, f *ssa.Function) {
				if f == nil || f.Pkg != d.pkg {
					return
				}
				if _, seen := parent[f]; seen {
					return
				}
				if f != target && allowed(fd, f) {
					return
				}
				parent[f] = from
				work = append(work, f)
			}
			for _, k := range keys {
				fn := d.fns[k]
				if fn.Name() == "main" && fn.Parent() == nil || strings.HasPrefix(fn.Name(), "init") && fn.Parent() == nil && fn.Signature.Recv() == nil {
					visit(nil, fn)
				}
			}
			for len(work) > 0 {
				f := work[len(work)-1]
				work = work[:len(work)-1]
				if n := cg.Nodes[f]; n != nil {
					for _, e := range n.Out {
						visit(f, e.Callee.Func)
					}
				}
				for _, b := range f.Blocks {
					for _, ins := range b.Instrs {
						var ops []*ssa.Value
						for _, op := range ins.Operands(ops) {
							if op == nil || *op == nil {
								continue
							}
							switch x := (*op).(type) {
							case *ssa.Function:
								visit(f, x)
							case *ssa.MakeClosure:
								if tf, ok := x.Fn.(*ssa.Function); ok {
									visit(f, tf)
								}
							}
						}
					}
				}
				for _, af := range f.AnonFuncs {
					visit(f, af)
				}
			}
			name := "frames/onlyvia@" + fd.Target
			if _, reached := parent[target]; reached {
				var path []string
				for f := target; f != nil; f = parent[f] {
					path = append([]string{key(f)}, path...)
				}
				pos := ""
				if len(path) >= 2 {
					pos = d.prog.Fset.Position(d.fns[path[len(path)-2]].Pos()).String()
				}
				fail("frame-onlyvia", name, fmt.Sprintf("%s may be called only under %v, but it is also reached by %s", fd.Target, fd.Allowed, strings.Join(path, " -> ")), pos)
			} else {
				pass("frame-onlyvia", name, fmt.Sprintf("%s is reached only through %v", fd.Target, fd.Allowed), "")
			}
		}
	}
	return fvc
}
