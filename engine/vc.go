package main

import (
	"fmt"
	"go/types"
	"sort"
	"strings"
)

// Obl is one proof obligation: prove Goal under Reach given the first Prefix commands.
type Obl struct {
	Name   string
	Kind   string
	Fn     string
	Prefix int
	Reach  string
	Goal   string
	Src    string
	Pos    string
	Syms   [][2]string // (label, term) to evaluate in a model
	Expect string      // "unsat" (default) or "sat" (vacuity/cover checks)
	Decided string     // structural obligations are decided by the analysis itself: "unsat" (holds) or "sat" (fails); no solver call
}

// VC accumulates the SMT commands and obligations for one verified function.
type VC struct {
	w        *World
	cmds     []string
	obls     []*Obl
	n        int
	fn       string
	declared map[string]bool
	notes    map[string]bool // assumptions / abstractions used
	unsup    []string
}

func NewVC(w *World, fn string) *VC {
	return &VC{w: w, fn: fn, declared: map[string]bool{}, notes: map[string]bool{}}
}

func (vc *VC) note(s string) { vc.notes[s] = true }

func (vc *VC) Notes() []string {
	r := []string{}
	for k := range vc.notes {
		r = append(r, k)
	}
	sort.Strings(r)
	return r
}

func sanitize(s string) string {
	var b strings.Builder
	for _, c := range s {
		if c >= 'a' && c <= 'z' || c >= 'A' && c <= 'Z' || c >= '0' && c <= '9' || c == '_' {
			b.WriteRune(c)
		} else {
			b.WriteByte('_')
		}
	}
	return b.String()
}

func (vc *VC) fresh(prefix string, s *Sort) string {
	vc.n++
	name := fmt.Sprintf("%s!%d", sanitize(prefix), vc.n)
	vc.cmds = append(vc.cmds, fmt.Sprintf("(declare-const %s %s)", name, s.SMT()))
	return name
}

func (vc *VC) declareOnce(name string, s *Sort) string {
	if !vc.declared[name] {
		vc.declared[name] = true
		vc.cmds = append(vc.cmds, fmt.Sprintf("(declare-const %s %s)", name, s.SMT()))
	}
	return name
}

func (vc *VC) define(prefix string, s *Sort, term string) string {
	// keep trivially small terms inline
	if len(term) < 24 && !strings.ContainsAny(term, " ") {
		return term
	}
	vc.n++
	name := fmt.Sprintf("%s!%d", sanitize(prefix), vc.n)
	vc.cmds = append(vc.cmds, fmt.Sprintf("(define-fun %s () %s %s)", name, s.SMT(), term))
	return name
}

func (vc *VC) assume(t string) {
	if t == "true" {
		return
	}
	vc.cmds = append(vc.cmds, "(assert "+t+")")
}

func (vc *VC) comment(s string) {
	vc.cmds = append(vc.cmds, "; "+strings.ReplaceAll(s, "\n", " "))
}

func (vc *VC) oblige(kind, name, reach, goal, src, pos string, syms [][2]string) *Obl {
	o := &Obl{Name: name, Kind: kind, Fn: vc.fn, Prefix: len(vc.cmds), Reach: reach, Goal: goal, Src: src, Pos: pos, Syms: syms}
	vc.obls = append(vc.obls, o)
	return o
}

func (vc *VC) unsupported(msg string) {
	vc.unsup = append(vc.unsup, msg)
}

// ---- SMT term helpers ----

func and(ts ...string) string {
	out := []string{}
	for _, t := range ts {
		if t == "true" || t == "" {
			continue
		}
		if t == "false" {
			return "false"
		}
		out = append(out, t)
	}
	switch len(out) {
	case 0:
		return "true"
	case 1:
		return out[0]
	}
	return "(and " + strings.Join(out, " ") + ")"
}

func or(ts ...string) string {
	out := []string{}
	for _, t := range ts {
		if t == "false" || t == "" {
			continue
		}
		if t == "true" {
			return "true"
		}
		out = append(out, t)
	}
	switch len(out) {
	case 0:
		return "false"
	case 1:
		return out[0]
	}
	return "(or " + strings.Join(out, " ") + ")"
}

func not(t string) string {
	switch t {
	case "true":
		return "false"
	case "false":
		return "true"
	}
	if strings.HasPrefix(t, "(not ") && strings.HasSuffix(t, ")") && balanced(t[5:len(t)-1]) {
		return t[5 : len(t)-1]
	}
	return "(not " + t + ")"
}

func balanced(s string) bool {
	d := 0
	inStr := false
	for i := 0; i < len(s); i++ {
		switch {
		case s[i] == '"':
			inStr = !inStr
		case inStr:
		case s[i] == '(':
			d++
		case s[i] == ')':
			d--
			if d < 0 {
				return false
			}
		case s[i] == ' ' && d == 0:
			return false
		}
	}
	return d == 0
}

func imp(a, b string) string {
	if a == "true" {
		return b
	}
	if b == "true" || a == "false" {
		return "true"
	}
	return "(=> " + a + " " + b + ")"
}

func ite(c, a, b string) string {
	if c == "true" {
		return a
	}
	if c == "false" {
		return b
	}
	if a == b {
		return a
	}
	return "(ite " + c + " " + a + " " + b + ")"
}

func eq(a, b string) string {
	if a == b {
		return "true"
	}
	return "(= " + a + " " + b + ")"
}

func smtInt(n int64) string {
	if n < 0 {
		return fmt.Sprintf("(- %d)", -n)
	}
	return fmt.Sprint(n)
}

// smtString renders a Go byte string as an SMT-LIB string literal.
func smtString(s string) string {
	var b strings.Builder
	b.WriteByte('"')
	for i := 0; i < len(s); i++ {
		c := s[i]
		switch {
		case c == '"':
			b.WriteString("\"\"")
		case c == '\\':
			b.WriteString("\\u{5c}")
		case c >= 0x20 && c < 0x7f:
			b.WriteByte(c)
		default:
			fmt.Fprintf(&b, "\\u{%x}", c)
		}
	}
	b.WriteByte('"')
	return b.String()
}

// ---- values ----

type Val struct {
	T      string // SMT term
	S      *Sort
	Tup    []*Val
	Ptr    *LPath     // lvalue pointer (address value)
	Dyn    types.Type // interface value boxed from a value of this static type (dynamic type known)
	Prov   *LPath     // where a slice value was loaded from
	Elems  []*Val     // known elements of a constructed array
	Clo    *Closure
	GoT    types.Type
	Const  *string  // known Go string constant
	Borrow *Borrow  // []byte that may alias a bufio.Reader's internal buffer (valid until the reader is read again)
	Lim    *LimInfo // io.LimitReader value: source reader and limit
}

type LPath struct {
	LibErr  bool   // global error value of another package (io.EOF, ...): never nil
	Kind    string // "field","cell","index","sub","global","opaque","local"
	Base    *LPath
	Ref     string
	Struct  string
	Field   string
	Idx     string
	Sort    *Sort // sort of the value stored at this location
	Var     string
	ElemsOf *Val // for local arrays: pointer to the Val tracking element list
}

type Closure struct {
	Fn       interface{} // *ssa.Function
	Bindings []*Val
}

func (v *Val) String() string {
	if v == nil {
		return "<nil>"
	}
	if v.Tup != nil {
		return fmt.Sprintf("tuple%d", len(v.Tup))
	}
	return v.T
}

// Borrow describes a byte slice handed out by (*bufio.Reader).ReadLine: it aliases the reader's internal
// buffer and is only valid until the next read on that reader. Active says whether the value is such a
// slice at all (it may be, on some paths), Reader/Epoch identify the reader and its read count at hand-out.
type Borrow struct {
	Active, Reader, Epoch string
	Pool                  bool // a pool buffer: may be stored and handed on, but not used after it was released
}

// LimInfo: an io.LimitReader wrapping reader Src (a reference term) with limit N.
type LimInfo struct{ Src, N string }
