package main

import (
	"fmt"
	"go/types"
	"os"
	"strconv"
	"strings"
)

// Env is the environment for translating a spec expression.
type Env struct {
	ex     *Exec
	vars   map[string]*Val
	cur    *State
	old    *State
	prev   *State // state at the head of the current loop iteration (step clauses)
	fr     *Frame
	inOld  bool
	inPrev bool
}

func (e *Env) state() *State {
	if e.inOld {
		return e.old
	}
	if e.inPrev && e.prev != nil {
		return e.prev
	}
	return e.cur
}

type specErr struct{ msg string }

func (ex *Exec) trBool(e *SExpr, env *Env) string {
	v := ex.tr(e, env)
	if v.S.K != KBool {
		panic(specErr{fmt.Sprintf("boolean expected, got %s in %s", v.S, e)})
	}
	return v.T
}

func (ex *Exec) sortFromName(n string) *Sort {
	switch n {
	case "int":
		return SInt
	case "string":
		return SString
	case "bool":
		return SBool
	case "any":
		return SAny
	case "ref":
		return SRef("")
	case "KeyValue":
		return &Sort{K: KData, Name: "KeyValue"}
	}
	if strings.HasPrefix(n, "*") {
		return SRef(n[1:])
	}
	if strings.HasPrefix(n, "seq<") && strings.HasSuffix(n, ">") {
		return SSeq(ex.sortFromName(n[4 : len(n)-1]))
	}
	if _, ok := ex.w.datas[n]; ok {
		return &Sort{K: KData, Name: n}
	}
	panic(specErr{"unknown type name " + n})
}

func (ex *Exec) tr(e *SExpr, env *Env) *Val {
	w := ex.w
	switch e.Op {
	case "int":
		return &Val{T: e.Name, S: SInt}
	case "str":
		return &Val{T: smtString(e.Name), S: SString}
	case "bool":
		return &Val{T: e.Name, S: SBool}
	case "nil":
		return &Val{T: "0", S: SRef("nil")}
	case "id":
		// a declared ghost variable is never shadowed by a program variable of the same name
		if gs, isGhost := ex.spec.ghosts[e.Name]; isGhost && !strings.HasPrefix(e.Name, "$") {
			ex.regSV(e.Name, gs)
			return &Val{T: ex.get(env.state(), e.Name), S: gs}
		}
		if v, ok := env.vars[e.Name]; ok {
			if v.T == "" && v.Tup == nil {
				panic(specErr{"variable " + e.Name + " has no term"})
			}
			return v
		}
		// ghost / global state variable
		if s, ok := ex.sv.sorts[e.Name]; ok {
			return &Val{T: ex.get(env.state(), e.Name), S: s}
		}
		if s, ok := ex.sv.sorts["G_main_"+e.Name]; ok {
			return &Val{T: ex.get(env.state(), "G_main_"+e.Name), S: s}
		}
		if gs := ex.globalSort(e.Name); gs != nil {
			name := ex.regSV("G_main_"+e.Name, gs)
			return &Val{T: ex.get(env.state(), name), S: gs}
		}
		if c, ok := ex.spec.consts[e.Name]; ok {
			return &Val{T: e.Name, S: c}
		}
		panic(specErr{"unknown identifier " + e.Name})
	case "old":
		save := env.inOld
		env.inOld = true
		v := ex.tr(e.Args[0], env)
		env.inOld = save
		return v
	case "prev":
		if env.prev == nil {
			panic(specErr{"prev() is only available in step clauses"})
		}
		save := env.inPrev
		env.inPrev = true
		v := ex.tr(e.Args[0], env)
		env.inPrev = save
		return v
	case "field":
		x := ex.tr(e.Args[0], env)
		switch x.S.K {
		case KRef:
			si := w.structs[x.S.Name]
			if si == nil {
				panic(specErr{fmt.Sprintf("field %s of non-struct reference %s in %s", e.Name, x.S, e)})
			}
			for _, f := range si.Fields {
				if f.Name == e.Name {
					return &Val{T: "(select " + ex.get(env.state(), ex.fieldVar(si.Name, f.Name, f.Sort)) + " " + x.T + ")", S: f.Sort}
				}
			}
			panic(specErr{"no field " + e.Name + " in " + si.Name})
		case KData:
			si := w.datas[x.S.Name]
			if si != nil {
				for _, f := range si.Fields {
					if f.Name == e.Name {
						return &Val{T: "(" + si.Name + "_" + f.Name + " " + x.T + ")", S: f.Sort}
					}
				}
			}
			panic(specErr{"no field " + e.Name + " in data " + x.S.Name})
		}
		panic(specErr{fmt.Sprintf("field access on %s in %s", x.S, e)})
	case "index":
		x := ex.tr(e.Args[0], env)
		i := ex.tr(e.Args[1], env)
		switch x.S.K {
		case KSeq:
			return &Val{T: ex.vc.nth(x.T, i.T, x.S.Elem), S: x.S.Elem}
		case KString:
			return &Val{T: "(str.to_code (str.at " + x.T + " " + i.T + "))", S: SInt}
		case KArr:
			return &Val{T: "(select " + x.T + " " + i.T + ")", S: x.S.Elem}
		case KRef:
			if x.S.Key != nil {
				return &Val{T: "(select (select " + ex.get(env.state(), ex.mapValVar(x.S)) + " " + x.T + ") " + i.T + ")", S: x.S.Val}
			}
		}
		panic(specErr{fmt.Sprintf("index on %s in %s", x.S, e)})
	case "slice":
		x := ex.tr(e.Args[0], env)
		lo := "0"
		if e.Args[1] != nil {
			lo = ex.tr(e.Args[1], env).T
		}
		hi := lenOf(x.T, x.S)
		if e.Args[2] != nil {
			hi = ex.tr(e.Args[2], env).T
		}
		if x.S.K == KString {
			return &Val{T: "(str.substr " + x.T + " " + lo + " (- " + hi + " " + lo + "))", S: SString}
		}
		if x.S.K == KSeq {
			return &Val{T: sqExt(x.T, lo, "(- "+hi+" "+lo+")", x.S.Elem), S: x.S}
		}
		panic(specErr{fmt.Sprintf("slice on %s", x.S)})
	case "unop":
		x := ex.tr(e.Args[0], env)
		if e.Name == "!" {
			return &Val{T: not(x.T), S: SBool}
		}
		return &Val{T: "(- " + x.T + ")", S: x.S}
	case "binop":
		return ex.trBin(e, env)
	case "ite":
		c := ex.trBool(e.Args[0], env)
		a := ex.tr(e.Args[1], env)
		b := ex.tr(e.Args[2], env)
		a, b = ex.unifyNil(a, b)
		return &Val{T: ite(c, a.T, b.T), S: a.S}
	case "let":
		v := ex.tr(e.Args[0], env)
		saved, had := env.vars[e.Name]
		env.vars[e.Name] = v
		r := ex.tr(e.Args[1], env)
		if had {
			env.vars[e.Name] = saved
		} else {
			delete(env.vars, e.Name)
		}
		return r
	case "forall", "exists":
		saved := map[string]*Val{}
		binders := []string{}
		for _, v := range e.Vars {
			s := ex.sortFromName(v.Type)
			if old, ok := env.vars[v.Name]; ok {
				saved[v.Name] = old
			}
			qn := "q_" + v.Name
			env.vars[v.Name] = &Val{T: qn, S: s}
			binders = append(binders, "("+qn+" "+s.SMT()+")")
		}
		body := ex.trBool(e.Args[0], env)
		for _, v := range e.Vars {
			if old, ok := saved[v.Name]; ok {
				env.vars[v.Name] = old
			} else {
				delete(env.vars, v.Name)
			}
		}
		return &Val{T: "(" + e.Op + " (" + strings.Join(binders, " ") + ") " + body + ")", S: SBool}
	case "call":
		return ex.trCall(e, env)
	}
	panic(specErr{"cannot translate " + e.String()})
}

func (ex *Exec) unifyNil(a, b *Val) (*Val, *Val) {
	if a.S.K == KRef && a.S.Name == "nil" && b.S.K == KAny {
		a = &Val{T: "anyNil", S: SAny}
	}
	if b.S.K == KRef && b.S.Name == "nil" && a.S.K == KAny {
		b = &Val{T: "anyNil", S: SAny}
	}
	if a.S.K == KRef && a.S.Name == "nil" && (b.S.K == KSeq || b.S.K == KString) {
		a = &Val{T: ex.w.Zero(b.S), S: b.S}
	}
	if b.S.K == KRef && b.S.Name == "nil" && (a.S.K == KSeq || a.S.K == KString) {
		b = &Val{T: ex.w.Zero(a.S), S: a.S}
	}
	return a, b
}

func (ex *Exec) trBin(e *SExpr, env *Env) *Val {
	op := e.Name
	switch op {
	case "&&", "||", "==>", "<==>":
		a := ex.trBool(e.Args[0], env)
		b := ex.trBool(e.Args[1], env)
		switch op {
		case "&&":
			return &Val{T: and(a, b), S: SBool}
		case "||":
			return &Val{T: or(a, b), S: SBool}
		case "==>":
			return &Val{T: imp(a, b), S: SBool}
		default:
			return &Val{T: "(= " + a + " " + b + ")", S: SBool}
		}
	}
	a := ex.tr(e.Args[0], env)
	b := ex.tr(e.Args[1], env)
	a, b = ex.unifyNil(a, b)
	switch op {
	case "==", "!=":
		if a.S.SMT() != b.S.SMT() {
			panic(specErr{fmt.Sprintf("comparison of %s with %s in %s", a.S, b.S, e)})
		}
		t := eq(a.T, b.T)
		if a.S.K == KSeq && a.T != b.T {
			t = sqEq(a.T, b.T, a.S.Elem) // extensional equality of axiomatised sequences
		}
		if op == "!=" {
			t = not(t)
		}
		return &Val{T: t, S: SBool}
	case "<", "<=", ">", ">=":
		if a.S.K == KString {
			switch op {
			case "<":
				return &Val{T: "(str.< " + a.T + " " + b.T + ")", S: SBool}
			case "<=":
				return &Val{T: "(str.<= " + a.T + " " + b.T + ")", S: SBool}
			case ">":
				return &Val{T: "(str.< " + b.T + " " + a.T + ")", S: SBool}
			default:
				return &Val{T: "(str.<= " + b.T + " " + a.T + ")", S: SBool}
			}
		}
		return &Val{T: "(" + op + " " + a.T + " " + b.T + ")", S: SBool}
	case "+":
		if a.S.K == KString {
			return &Val{T: "(str.++ " + a.T + " " + b.T + ")", S: SString}
		}
		return &Val{T: "(+ " + a.T + " " + b.T + ")", S: a.S}
	case "++":
		if a.S.K == KString {
			return &Val{T: "(str.++ " + a.T + " " + b.T + ")", S: SString}
		}
		return &Val{T: sqApp(a.T, b.T, a.S.Elem), S: a.S}
	case "-", "*":
		return &Val{T: "(" + op + " " + a.T + " " + b.T + ")", S: a.S}
	case "/":
		return &Val{T: "(go_div " + a.T + " " + b.T + ")", S: SInt}
	case "%":
		return &Val{T: "(go_mod " + a.T + " " + b.T + ")", S: SInt}
	}
	panic(specErr{"operator " + op})
}

func (ex *Exec) trCall(e *SExpr, env *Env) *Val {
	w := ex.w
	arg := func(i int) *Val { return ex.tr(e.Args[i], env) }
	switch e.Name {
	case "len":
		x := arg(0)
		if x.S.K != KSeq && x.S.K != KString {
			panic(specErr{fmt.Sprintf("len of %s in %s", x.S, e)})
		}
		return &Val{T: lenOf(x.T, x.S), S: SInt}
	case "has": // has(map, key)
		m, k := arg(0), arg(1)
		if m.S.Key == nil {
			panic(specErr{"has() needs a map"})
		}
		return &Val{T: "(select (select " + ex.get(env.state(), ex.mapDomVar(m.S)) + " " + m.T + ") " + k.T + ")", S: SBool}
	case "domOf": // domain array of a map
		m := arg(0)
		return &Val{T: "(select " + ex.get(env.state(), ex.mapDomVar(m.S)) + " " + m.T + ")", S: SArr(m.S.Key, SBool)}
	case "valOf":
		m := arg(0)
		return &Val{T: "(select " + ex.get(env.state(), ex.mapValVar(m.S)) + " " + m.T + ")", S: SArr(m.S.Key, m.S.Val)}
	case "seq1":
		x := arg(0)
		if x.S.K == KInt && false {
			return nil
		}
		return &Val{T: sqUnit(x.T, x.S), S: SSeq(x.S)}
	case "emptyOf":
		x := arg(0)
		return &Val{T: w.Zero(x.S), S: x.S}
	case "contains":
		a, b := arg(0), arg(1)
		if a.S.K == KString {
			return &Val{T: "(str.contains " + a.T + " " + b.T + ")", S: SBool}
		}
		return &Val{T: sqHas(a.T, b.T, a.S.Elem), S: SBool}
	case "hasPrefix":
		return &Val{T: "(str.prefixof " + arg(1).T + " " + arg(0).T + ")", S: SBool}
	case "hasSuffix":
		return &Val{T: "(str.suffixof " + arg(1).T + " " + arg(0).T + ")", S: SBool}
	case "indexOf":
		return &Val{T: "(str.indexof " + arg(0).T + " " + arg(1).T + " 0)", S: SInt}
	case "itoa":
		return &Val{T: "(itoa " + arg(0).T + ")", S: SString}
	case "chr":
		return &Val{T: "(str.from_code " + arg(0).T + ")", S: SString}
	case "isNil":
		x := arg(0)
		if x.S.K == KAny {
			return &Val{T: eq(x.T, "anyNil"), S: SBool}
		}
		return &Val{T: eq(x.T, "0"), S: SBool}
	case "nonNil": // non-nil pointer, or non-nil interface holding a non-nil pointer
		x := arg(0)
		if x.S.K == KAny {
			return &Val{T: "(and (not (= " + x.T + " anyNil)) (> (refOf " + x.T + ") 0))", S: SBool}
		}
		return &Val{T: "(> " + x.T + " 0)", S: SBool}
	case "isType": // isType(x, "*Via")
		x := arg(0)
		id := ex.typeIDByName(e.Args[1].Name)
		return &Val{T: fmt.Sprintf("(= (tyOf %s) %d)", x.T, id), S: SBool}
	case "asRef": // asRef(x, "Via") payload reference with struct type
		x := arg(0)
		return &Val{T: "(refOf " + x.T + ")", S: SRef(strings.TrimPrefix(e.Args[1].Name, "*"))}
	case "cast": // cast(intRef, "T"): view an untyped reference (e.g. from a ghost log) as *T
		x := arg(0)
		return &Val{T: x.T, S: SRef(strings.TrimPrefix(e.Args[1].Name, "*"))}
	case "asStr":
		return &Val{T: "(strOf " + arg(0).T + ")", S: SString}
	case "anyRef": // anyRef("*Via", r)
		id := ex.typeIDByName(e.Args[0].Name)
		return &Val{T: fmt.Sprintf("(mkAny %d %s \"\")", id, arg(1).T), S: SAny}
	case "anyStr":
		id := ex.typeIDByName("string")
		return &Val{T: fmt.Sprintf("(mkAny %d 0 %s)", id, arg(0).T), S: SAny}
	case "refOf":
		return &Val{T: "(refOf " + arg(0).T + ")", S: SRef("")}
	case "fresh": // fresh(r): allocated during the call
		ex.regSV("alloc", SInt)
		x := arg(0)
		return &Val{T: "(and (> " + x.T + " " + ex.get(env.old, "alloc") + ") (<= " + x.T + " " + ex.get(env.cur, "alloc") + "))", S: SBool}
	case "allocated":
		ex.regSV("alloc", SInt)
		x := arg(0)
		return &Val{T: "(and (> " + x.T + " 0) (<= " + x.T + " " + ex.get(env.state(), "alloc") + "))", S: SBool}
	case "toReal":
		return &Val{T: "(to_real " + arg(0).T + ")", S: SReal}
	}
	// spec function from the prelude
	if sf, ok := ex.spec.funcs[e.Name]; ok {
		parts := []string{"(" + sf.Name}
		ai := 0
		for _, p := range sf.Params {
			if strings.HasPrefix(p.Name, "H_") || strings.HasPrefix(p.Name, "MD_") || strings.HasPrefix(p.Name, "MV_") || strings.HasPrefix(p.Name, "C_") || strings.HasPrefix(p.Name, "G_") || strings.HasPrefix(p.Name, "GH_") {
				name := p.Name
				if strings.HasPrefix(name, "GH_") {
					name = name[3:]
				}
				ex.regSV(name, p.Sort)
				parts = append(parts, ex.get(env.state(), name))
				continue
			}
			if ai >= len(e.Args) {
				panic(specErr{"too few arguments for " + e.Name})
			}
			a := arg(ai)
			if a.S.K == KRef && a.S.Name == "nil" && p.Sort.K == KAny {
				a = &Val{T: "anyNil", S: SAny}
			}
			if a.S.SMT() != p.Sort.SMT() {
				panic(specErr{fmt.Sprintf("argument %d of %s: %s expected, got %s", ai, e.Name, p.Sort.SMT(), a.S.SMT())})
			}
			parts = append(parts, a.T)
			ai++
		}
		if ai != len(e.Args) {
			panic(specErr{"too many arguments for " + e.Name})
		}
		if len(parts) == 1 {
			return &Val{T: sf.Name, S: sf.Result}
		}
		return &Val{T: strings.Join(parts, " ") + ")", S: sf.Result}
	}
	panic(specErr{"unknown function " + e.Name})
}

func (ex *Exec) typeIDByName(n string) int {
	if id, ok := ex.w.typeIDs[n]; ok {
		return id
	}
	// allocate an id under that name; TypeID() uses the same naming scheme
	id := len(ex.w.typeIDs) + 1
	ex.w.typeIDs[n] = id
	ex.w.typeNames = append(ex.w.typeNames, n)
	return id
}

func (ex *Exec) globalSort(name string) *Sort {
	if gl := ex.pkg.Var(name); gl != nil {
		return ex.w.SortOf(gl.Type().(*types.Pointer).Elem())
	}
	return nil
}

// ---- modifies locations ----

type ModLoc struct {
	Var string
	Obj string
	All bool
}

func (ex *Exec) resolveModLoc(e *SExpr, env *Env) []ModLoc {
	w := ex.w
	switch e.Op {
	case "field":
		// T.f (type-level) or obj.f
		if e.Args[0].Op == "id" {
			if _, isVar := env.vars[e.Args[0].Name]; !isVar {
				if si, ok := w.structs[e.Args[0].Name]; ok {
					for _, f := range si.Fields {
						if f.Name == e.Name {
							return []ModLoc{{Var: ex.fieldVar(si.Name, f.Name, f.Sort), All: true}}
						}
					}
					panic(specErr{"no field " + e.Name + " in " + si.Name})
				}
			}
		}
		x := ex.tr(e.Args[0], env)
		if x.S.K != KRef {
			panic(specErr{"modifies: object expression expected in " + e.String()})
		}
		si := w.structs[x.S.Name]
		if si == nil {
			panic(specErr{"modifies: not a struct reference: " + e.String()})
		}
		for _, f := range si.Fields {
			if f.Name == e.Name {
				return []ModLoc{{Var: ex.fieldVar(si.Name, f.Name, f.Sort), Obj: x.T}}
			}
		}
		panic(specErr{"no field " + e.Name + " in " + si.Name})
	case "call":
		if e.Name == "mapof" {
			m := ex.tr(e.Args[0], env)
			if m.S.Key == nil {
				panic(specErr{"mapof needs a map"})
			}
			return []ModLoc{{Var: ex.mapDomVar(m.S), Obj: m.T}, {Var: ex.mapValVar(m.S), Obj: m.T}}
		}
		if e.Name == "allmaps" { // allmaps("string","*Header")? not needed
		}
	case "id":
		if _, ok := ex.sv.sorts[e.Name]; ok {
			return []ModLoc{{Var: e.Name, All: true}}
		}
		if gs := ex.globalSort(e.Name); gs != nil {
			return []ModLoc{{Var: ex.regSV("G_main_"+e.Name, gs), All: true}}
		}
	}
	panic(specErr{"cannot resolve modifies location " + e.String()})
}

// ---- spec library (prelude) ----

type SpecParam struct {
	Name string
	Sort *Sort
}
type SpecFunc struct {
	Name   string
	Params []SpecParam
	Result *Sort
}
type SpecLib struct {
	funcs  map[string]*SpecFunc
	consts map[string]*Sort
	text   string
	ghosts map[string]*Sort
}

// LoadSpecLib parses define-fun / declare-fun headers of the prelude files.
func LoadSpecLib(w *World, files ...string) (*SpecLib, error) {
	sl := &SpecLib{funcs: map[string]*SpecFunc{}, consts: map[string]*Sort{}, ghosts: map[string]*Sort{}}
	var all strings.Builder
	for _, f := range files {
		b, err := os.ReadFile(f)
		if err != nil {
			return nil, err
		}
		all.WriteString("; ---- " + f + "\n")
		all.Write(b)
		all.WriteString("\n")
		sx, err := parseSexprs(string(b))
		if err != nil {
			return nil, fmt.Errorf("%s: %v", f, err)
		}
		for _, s := range sx {
			if s.atom != "" || len(s.list) == 0 {
				continue
			}
			head := s.list[0].atom
			switch head {
			case "define-fun", "define-fun-rec":
				if len(s.list) < 4 {
					continue
				}
				sf := &SpecFunc{Name: s.list[1].atom}
				for _, p := range s.list[2].list {
					sf.Params = append(sf.Params, SpecParam{Name: p.list[0].atom, Sort: sortFromSexpr(p.list[1])})
				}
				sf.Result = sortFromSexpr(s.list[3])
				sl.funcs[sf.Name] = sf
			case "declare-fun":
				sf := &SpecFunc{Name: s.list[1].atom}
				for i, p := range s.list[2].list {
					sf.Params = append(sf.Params, SpecParam{Name: fmt.Sprintf("a%d", i), Sort: sortFromSexpr(p)})
				}
				sf.Result = sortFromSexpr(s.list[3])
				sl.funcs[sf.Name] = sf
			case "declare-const":
				sl.consts[s.list[1].atom] = sortFromSexpr(s.list[2])
			case "define-funs-rec":
				decls := s.list[1].list
				for _, d := range decls {
					sf := &SpecFunc{Name: d.list[0].atom}
					for _, p := range d.list[1].list {
						sf.Params = append(sf.Params, SpecParam{Name: p.list[0].atom, Sort: sortFromSexpr(p.list[1])})
					}
					sf.Result = sortFromSexpr(d.list[2])
					sl.funcs[sf.Name] = sf
				}
			}
		}
		// ghost declarations: ";@ghost name sort"
		for _, line := range strings.Split(string(b), "\n") {
			line = strings.TrimSpace(line)
			if strings.HasPrefix(line, ";@ghost ") {
				rest := strings.TrimSpace(line[8:])
				sp := strings.IndexByte(rest, ' ')
				sx, err := parseSexprs(rest[sp+1:])
				if err != nil || len(sx) != 1 {
					return nil, fmt.Errorf("bad ghost decl %q", line)
				}
				sl.ghosts[rest[:sp]] = sortFromSexpr(sx[0])
			}
		}
	}
	sl.text = all.String()
	return sl, nil
}

type sexpr struct {
	atom string
	list []*sexpr
}

func parseSexprs(s string) ([]*sexpr, error) {
	var out []*sexpr
	var stack []*sexpr
	i := 0
	emit := func(x *sexpr) {
		if len(stack) > 0 {
			top := stack[len(stack)-1]
			top.list = append(top.list, x)
		} else {
			out = append(out, x)
		}
	}
	for i < len(s) {
		c := s[i]
		switch {
		case c == ';':
			for i < len(s) && s[i] != '\n' {
				i++
			}
		case c == ' ' || c == '\n' || c == '\t' || c == '\r':
			i++
		case c == '(':
			stack = append(stack, &sexpr{list: []*sexpr{}})
			i++
		case c == ')':
			if len(stack) == 0 {
				return nil, fmt.Errorf("unbalanced ) at %d", i)
			}
			top := stack[len(stack)-1]
			stack = stack[:len(stack)-1]
			emit(top)
			i++
		case c == '"':
			j := i + 1
			for j < len(s) {
				if s[j] == '"' {
					if j+1 < len(s) && s[j+1] == '"' {
						j += 2
						continue
					}
					break
				}
				j++
			}
			emit(&sexpr{atom: s[i : j+1]})
			i = j + 1
		case c == '|':
			j := i + 1
			for j < len(s) && s[j] != '|' {
				j++
			}
			emit(&sexpr{atom: s[i : j+1]})
			i = j + 1
		default:
			j := i
			for j < len(s) && !strings.ContainsRune(" \n\t\r()", rune(s[j])) {
				j++
			}
			emit(&sexpr{atom: s[i:j]})
			i = j
		}
	}
	if len(stack) != 0 {
		return nil, fmt.Errorf("unbalanced (")
	}
	return out, nil
}

func sortFromSexpr(s *sexpr) *Sort {
	if s.atom != "" {
		switch s.atom {
		case "Int":
			return SInt
		case "Bool":
			return SBool
		case "String":
			return SString
		case "Real":
			return SReal
		case "Any":
			return SAny
		}
		if strings.HasPrefix(s.atom, "Sq_") {
			return SSeq(sortFromSexpr(&sexpr{atom: s.atom[3:]}))
		}
		if strings.HasPrefix(s.atom, "D_") {
			return &Sort{K: KData, Name: s.atom[2:]}
		}
		return &Sort{K: KData, Name: s.atom}
	}
	if len(s.list) == 2 && s.list[0].atom == "Seq" {
		return SSeq(sortFromSexpr(s.list[1]))
	}
	if len(s.list) == 3 && s.list[0].atom == "Array" {
		return SArr(sortFromSexpr(s.list[1]), sortFromSexpr(s.list[2]))
	}
	return SInt
}

var _ = strconv.Itoa
