package main

import (
	"fmt"
	"sort"
	"strings"
	"sync"
)

// Sequences (Go slices/arrays other than []byte) are NOT modelled with the SMT sequence theory:
// both installed z3 versions answer "unsat" on satisfiable formulas that combine (Seq T) with quantified
// axioms (minimal reproductions are kept under /verif/spec/*.txt). They are modelled Dafny/Boogie style:
// one uninterpreted sort Sq_<T> per element sort with length / index / append / extract / unit / empty
// functions and the usual axioms, including extensional equality through sq_eq_<T>.

var seqElems = map[string]*Sort{}
var seqMu sync.Mutex

func sqID(elem *Sort) string {
	id := elem.Ident()
	seqMu.Lock()
	if _, ok := seqElems[id]; !ok {
		seqElems[id] = elem
	}
	seqMu.Unlock()
	return id
}

func sqLen(t string, elem *Sort) string    { return "(sq_len_" + sqID(elem) + " " + t + ")" }
func sqNth(t, i string, elem *Sort) string { return "(sq_nth_" + sqID(elem) + " " + t + " " + i + ")" }
func sqApp(a, b string, elem *Sort) string { return "(sq_app_" + sqID(elem) + " " + a + " " + b + ")" }
func sqUnit(x string, elem *Sort) string   { return "(sq_unit_" + sqID(elem) + " " + x + ")" }
func sqEmpty(elem *Sort) string            { return "sq_empty_" + sqID(elem) }
func sqEq(a, b string, elem *Sort) string  { return "(sq_eq_" + sqID(elem) + " " + a + " " + b + ")" }
func sqHas(s, x string, elem *Sort) string { return "(sq_has_" + sqID(elem) + " " + s + " " + x + ")" }
func sqUpd(t, i, x string, elem *Sort) string {
	return "(sq_upd_" + sqID(elem) + " " + t + " " + i + " " + x + ")"
}
func sqExt(t, lo, n string, elem *Sort) string {
	return "(sq_ext_" + sqID(elem) + " " + t + " " + lo + " " + n + ")"
}

// seqSortDecls: (declare-sort ...) for every sequence sort in use; must precede the datatypes.
func seqSortDecls() string {
	seqMu.Lock()
	defer seqMu.Unlock()
	ids := []string{}
	for id := range seqElems {
		ids = append(ids, id)
	}
	sort.Strings(ids)
	var b strings.Builder
	for _, id := range ids {
		fmt.Fprintf(&b, "(declare-sort Sq_%s 0)\n", id)
	}
	return b.String()
}

// seqFuncDecls: functions and axioms; must follow the datatypes (elements may be datatypes).
func seqFuncDecls() string {
	seqMu.Lock()
	ids := []string{}
	elems := map[string]*Sort{}
	for id, e := range seqElems {
		ids = append(ids, id)
		elems[id] = e
	}
	seqMu.Unlock()
	sort.Strings(ids)
	var b strings.Builder
	for _, id := range ids {
		x := elems[id].SMT()
		r := strings.NewReplacer("$I", id, "$X", x)
		b.WriteString(r.Replace(seqAxioms))
	}
	return b.String()
}

const seqAxioms = `
(declare-fun sq_len_$I (Sq_$I) Int)
(declare-fun sq_nth_$I (Sq_$I Int) $X)
(declare-const sq_empty_$I Sq_$I)
(declare-fun sq_unit_$I ($X) Sq_$I)
(declare-fun sq_app_$I (Sq_$I Sq_$I) Sq_$I)
(declare-fun sq_ext_$I (Sq_$I Int Int) Sq_$I)
(declare-fun sq_upd_$I (Sq_$I Int $X) Sq_$I)
(declare-fun sq_eq_$I (Sq_$I Sq_$I) Bool)
(declare-fun sq_has_$I (Sq_$I $X) Bool)
(declare-fun sq_idx_$I (Sq_$I $X) Int)
(assert (forall ((s Sq_$I)) (! (>= (sq_len_$I s) 0) :pattern ((sq_len_$I s)))))
(assert (= (sq_len_$I sq_empty_$I) 0))
(assert (forall ((s Sq_$I)) (! (=> (= (sq_len_$I s) 0) (= s sq_empty_$I)) :pattern ((sq_len_$I s)))))
(assert (forall ((x $X)) (! (and (= (sq_len_$I (sq_unit_$I x)) 1) (= (sq_nth_$I (sq_unit_$I x) 0) x)) :pattern ((sq_unit_$I x)))))
(assert (forall ((a Sq_$I) (b Sq_$I)) (! (= (sq_len_$I (sq_app_$I a b)) (+ (sq_len_$I a) (sq_len_$I b))) :pattern ((sq_app_$I a b)))))
(assert (forall ((a Sq_$I) (b Sq_$I) (i Int)) (! (=> (and (<= 0 i) (< i (+ (sq_len_$I a) (sq_len_$I b))))
   (= (sq_nth_$I (sq_app_$I a b) i) (ite (< i (sq_len_$I a)) (sq_nth_$I a i) (sq_nth_$I b (- i (sq_len_$I a))))))
   :pattern ((sq_nth_$I (sq_app_$I a b) i)))))
(assert (forall ((a Sq_$I) (b Sq_$I) (i Int)) (! (=> (and (<= 0 i) (< i (sq_len_$I a))) (= (sq_nth_$I (sq_app_$I a b) i) (sq_nth_$I a i)))
   :pattern ((sq_nth_$I a i) (sq_app_$I a b)))))
(assert (forall ((a Sq_$I) (b Sq_$I) (i Int)) (! (=> (and (<= 0 i) (< i (sq_len_$I b))) (= (sq_nth_$I (sq_app_$I a b) (+ i (sq_len_$I a))) (sq_nth_$I b i)))
   :pattern ((sq_nth_$I b i) (sq_app_$I a b)))))
(assert (forall ((a Sq_$I)) (! (and (= (sq_app_$I a sq_empty_$I) a) (= (sq_app_$I sq_empty_$I a) a)) :pattern ((sq_app_$I a sq_empty_$I)) :pattern ((sq_app_$I sq_empty_$I a)))))
(assert (forall ((s Sq_$I) (lo Int) (n Int)) (! (= (sq_len_$I (sq_ext_$I s lo n))
   (ite (or (< lo 0) (>= lo (sq_len_$I s)) (<= n 0)) 0 (ite (<= (+ lo n) (sq_len_$I s)) n (- (sq_len_$I s) lo))))
   :pattern ((sq_ext_$I s lo n)))))
(assert (forall ((s Sq_$I) (lo Int) (n Int) (i Int)) (! (=> (and (<= 0 i) (< i (sq_len_$I (sq_ext_$I s lo n))))
   (= (sq_nth_$I (sq_ext_$I s lo n) i) (sq_nth_$I s (+ lo i))))
   :pattern ((sq_nth_$I (sq_ext_$I s lo n) i)))))
(assert (forall ((s Sq_$I) (lo Int) (n Int) (j Int)) (! (=> (and (<= 0 lo) (<= lo j) (< j (+ lo (sq_len_$I (sq_ext_$I s lo n)))))
   (= (sq_nth_$I (sq_ext_$I s lo n) (- j lo)) (sq_nth_$I s j)))
   :pattern ((sq_nth_$I s j) (sq_ext_$I s lo n)))))
(assert (forall ((s Sq_$I)) (! (= (sq_ext_$I s 0 (sq_len_$I s)) s) :pattern ((sq_ext_$I s 0 (sq_len_$I s))))))
(assert (forall ((s Sq_$I) (lo Int) (n Int) (lo2 Int) (n2 Int)) (! (=> (and (<= 0 lo) (<= 0 lo2) (<= 0 n2) (<= (+ lo2 n2) (sq_len_$I (sq_ext_$I s lo n))))
   (= (sq_ext_$I (sq_ext_$I s lo n) lo2 n2) (sq_ext_$I s (+ lo lo2) n2)))
   :pattern ((sq_ext_$I (sq_ext_$I s lo n) lo2 n2)))))
(assert (forall ((a Sq_$I) (b Sq_$I)) (! (and (= (sq_ext_$I (sq_app_$I a b) 0 (sq_len_$I a)) a) (= (sq_ext_$I (sq_app_$I a b) (sq_len_$I a) (sq_len_$I b)) b)) :pattern ((sq_app_$I a b)))))
(assert (forall ((s Sq_$I) (i Int) (x $X)) (! (= (sq_len_$I (sq_upd_$I s i x)) (sq_len_$I s)) :pattern ((sq_upd_$I s i x)))))
(assert (forall ((s Sq_$I) (i Int) (x $X) (j Int)) (! (=> (and (<= 0 i) (< i (sq_len_$I s)) (<= 0 j) (< j (sq_len_$I s)))
   (= (sq_nth_$I (sq_upd_$I s i x) j) (ite (= j i) x (sq_nth_$I s j))))
   :pattern ((sq_nth_$I (sq_upd_$I s i x) j)))))
(assert (forall ((s Sq_$I) (i Int) (x $X)) (! (=> (and (<= 0 i) (< i (sq_len_$I s))) (= (sq_nth_$I (sq_upd_$I s i x) i) x)) :pattern ((sq_upd_$I s i x)))))
(assert (forall ((a Sq_$I) (b Sq_$I)) (! (= (sq_eq_$I a b)
   (and (= (sq_len_$I a) (sq_len_$I b))
        (forall ((i Int)) (! (=> (and (<= 0 i) (< i (sq_len_$I a))) (= (sq_nth_$I a i) (sq_nth_$I b i))) :pattern ((sq_nth_$I a i)) :pattern ((sq_nth_$I b i))))))
   :pattern ((sq_eq_$I a b)))))
(assert (forall ((a Sq_$I) (b Sq_$I)) (! (=> (sq_eq_$I a b) (= a b)) :pattern ((sq_eq_$I a b)))))
(assert (forall ((a Sq_$I)) (! (sq_eq_$I a a) :pattern ((sq_eq_$I a a)))))
(assert (forall ((s Sq_$I) (x $X) (i Int)) (! (=> (and (<= 0 i) (< i (sq_len_$I s)) (= (sq_nth_$I s i) x)) (sq_has_$I s x)) :pattern ((sq_nth_$I s i) (sq_has_$I s x)))))
(assert (forall ((s Sq_$I) (x $X)) (! (=> (sq_has_$I s x) (and (<= 0 (sq_idx_$I s x)) (< (sq_idx_$I s x) (sq_len_$I s)) (= (sq_nth_$I s (sq_idx_$I s x)) x))) :pattern ((sq_has_$I s x)))))
`
