package main

import (
	"fmt"
	"go/token"
	"go/types"
	"os"
	"path/filepath"
	"regexp"
	"runtime/debug"
	"sort"
	"strings"
	"sync"

	"golang.org/x/tools/go/packages"
	"golang.org/x/tools/go/ssa"
	"golang.org/x/tools/go/ssa/ssautil"
)

type Driver struct {
	repo    string
	specDir string
	prog    *ssa.Program
	pkg     *ssa.Package
	cs      *ContractSet
	w       *World
	spec    *SpecLib
	chunks  []preludeChunk
	fns     map[string]*ssa.Function
}

type preludeChunk struct {
	name     string
	triggers []string
	text     string
}

func LoadDriver(repo, specDir string) (*Driver, error) {
	cfg := &packages.Config{Mode: packages.LoadAllSyntax, Dir: repo, BuildFlags: []string{"-tags=verif"},
		Env: append(os.Environ(), "GOFLAGS=-mod=mod", "GOPROXY=off", "GOSUMDB=off", "GOTOOLCHAIN=local")}
	pkgs, err := packages.Load(cfg, ".")
	if err != nil {
		return nil, err
	}
	if len(pkgs) != 1 {
		return nil, fmt.Errorf("expected one package, got %d", len(pkgs))
	}
	if len(pkgs[0].Errors) > 0 {
		return nil, fmt.Errorf("package errors: %v", pkgs[0].Errors)
	}
	prog, spkgs := ssautil.AllPackages(pkgs, ssa.GlobalDebug)
	prog.Build()
	d := &Driver{repo: repo, specDir: specDir, prog: prog, pkg: spkgs[0], fns: map[string]*ssa.Function{}}
	d.w = NewWorld(d.pkg.Pkg.Path())
	d.w.TypeID(types.Typ[types.String]) // id 1 = string
	// register all package struct types as datatypes so that spec files can mention them
	names := []string{}
	for n := range d.pkg.Members {
		names = append(names, n)
	}
	sort.Strings(names)
	for _, n := range names {
		if tn, ok := d.pkg.Members[n].(*ssa.Type); ok {
			if _, isStruct := tn.Type().Underlying().(*types.Struct); isStruct {
				d.w.dataOf(tn.Type())
				// deterministic dynamic-type ids for *T and T
				d.w.TypeID(types.NewPointer(tn.Type()))
				d.w.TypeID(tn.Type())
			}
		}
	}
	for _, extra := range []string{"*bytes.Buffer", "*errors.errorString", "*net.TCPConn", "*net.UDPConn", "int"} {
		if _, ok := d.w.typeIDs[extra]; !ok {
			id := len(d.w.typeIDs) + 1
			d.w.typeIDs[extra] = id
			d.w.typeNames = append(d.w.typeNames, extra)
		}
	}
	// all functions incl. methods and closures
	for fn := range ssautil.AllFunctions(prog) {
		if fn.Pkg == d.pkg {
			d.fns[fn.RelString(d.pkg.Pkg)] = fn
			// user init functions are numbered by file order: also addressable as init@<file>
			if strings.HasPrefix(fn.Name(), "init#") && fn.Pos().IsValid() {
				f := prog.Fset.Position(fn.Pos()).Filename
				d.fns["init@"+filepath.Base(f)] = fn
			}
		}
	}
	// contracts: every *.go file in repo guarded by the verif tag that contains //@ lines, plus spec/*.contracts
	var files []string
	ents, _ := os.ReadDir(repo)
	for _, e := range ents {
		if strings.HasPrefix(e.Name(), "verif_") && strings.HasSuffix(e.Name(), ".go") {
			files = append(files, filepath.Join(repo, e.Name()))
		}
	}
	extra, _ := filepath.Glob(filepath.Join(specDir, "*.contracts"))
	files = append(files, extra...)
	d.cs, err = LoadContracts(files...)
	if err != nil {
		return nil, err
	}
	smt, _ := filepath.Glob(filepath.Join(specDir, "*.smt2"))
	sort.Strings(smt)
	// prelude.smt2 first
	sort.SliceStable(smt, func(i, j int) bool {
		return filepath.Base(smt[i]) == "prelude.smt2" && filepath.Base(smt[j]) != "prelude.smt2"
	})
	d.spec, err = LoadSpecLib(d.w, smt...)
	if err != nil {
		return nil, err
	}
	d.chunks = splitChunks(d.spec.text)
	for n := range d.spec.funcs {
		preludeHas[n] = true
	}
	return d, nil
}

func splitChunks(text string) []preludeChunk {
	var chunks []preludeChunk
	cur := preludeChunk{name: "core"}
	for _, line := range strings.Split(text, "\n") {
		if strings.HasPrefix(line, ";@chunk ") {
			if strings.TrimSpace(cur.text) != "" {
				chunks = append(chunks, cur)
			}
			f := strings.Fields(line[8:])
			cur = preludeChunk{name: f[0], triggers: f[1:]}
			continue
		}
		cur.text += line + "\n"
	}
	if strings.TrimSpace(cur.text) != "" {
		chunks = append(chunks, cur)
	}
	return chunks
}

var symRe = regexp.MustCompile(`[A-Za-z_][A-Za-z0-9_.!]*`)

// preludeFor selects the prelude chunks needed by body (transitively).
func (d *Driver) preludeFor(body string) string {
	need := map[int]bool{}
	syms := map[string]bool{}
	addSyms := func(s string) {
		for _, m := range symRe.FindAllString(s, -1) {
			syms[m] = true
		}
	}
	addSyms(body)
	changed := true
	for changed {
		changed = false
		for i, c := range d.chunks {
			if need[i] {
				continue
			}
			use := c.name == "core"
			for _, t := range c.triggers {
				if syms[t] {
					use = true
				}
			}
			if use {
				need[i] = true
				addSyms(c.text)
				changed = true
			}
		}
	}
	var b strings.Builder
	// core first, then datatypes are inserted by caller after core
	for i, c := range d.chunks {
		if need[i] && c.name == "core" {
			b.WriteString(c.text)
		}
	}
	b.WriteString(";@@DATA@@\n")
	for i, c := range d.chunks {
		if need[i] && c.name != "core" {
			b.WriteString("; chunk " + c.name + "\n")
			b.WriteString(c.text)
		}
	}
	return b.String()
}

type FuncVC struct {
	Key    string
	VC     *VC
	Err    string
	Notes  []string
	Unsup  []string
	NInstr int
}

func (d *Driver) newExec(fn *ssa.Function, key string, safety bool) *Exec {
	ex := &Exec{w: d.w, vc: NewVC(d.w, key), prog: d.prog, pkg: d.pkg, cs: d.cs, spec: d.spec, safety: safety,
		oblN: map[string]int{}, maxInline: 6, topFn: fn}
	ex.sv.sorts = map[string]*Sort{}
	ex.mods = NewModAnalysis(ex)
	ex.regSV("alloc", SInt)
	for g, s := range d.spec.ghosts {
		ex.regSV(g, s)
	}
	return ex
}

// GenVC generates the verification conditions of one function against its contract.
func (d *Driver) GenVC(key string, safety bool, lockCheck bool) (fvc *FuncVC) {
	fvc = &FuncVC{Key: key}
	fn := d.fns[key]
	if fn == nil {
		fvc.Err = "function not found in package: " + key
		return
	}
	c := d.cs.Funcs[key]
	ex := d.newExec(fn, key, safety)
	ex.lockCheck = lockCheck
	fvc.VC = ex.vc
	defer func() {
		if r := recover(); r != nil {
			if se, ok := r.(specErr); ok {
				fvc.Err = "spec error: " + se.msg
			} else {
				fvc.Err = fmt.Sprintf("engine panic: %v\n%s", r, debug.Stack())
			}
		}
		fvc.Notes = ex.vc.Notes()
		fvc.Unsup = ex.vc.unsup
	}()
	vc := ex.vc
	st := NewState()
	vc.assume("(>= " + ex.get(st, "alloc") + " 0)")
	args := []*Val{}
	syms := [][2]string{}
	deref := true
	mkParam := func(name string, t types.Type) *Val {
		s := d.w.SortOf(t)
		v := &Val{T: vc.fresh("p_"+name, s), S: s, GoT: t}
		if s.K == KRef {
			vc.assume("(and (>= " + v.T + " 0) (<= " + v.T + " " + ex.get(st, "alloc") + "))")
			// safety mode: pointer parameters are non-nil at entry; callers are checked (nil-arg obligations)
			if safety && deref && s.Name != "" && s.Name != "cell" && s.Name != "map" && s.Name != "chan" && s.Name != "func" {
				vc.assume("(> " + v.T + " 0)")
			}
		}
		if s.K == KAny {
			vc.assume("(anyWF " + v.T + ")")
			// heap closure for interface parameters: the boxed reference is an allocated object (or none)
			vc.assume("(and (>= (refOf " + v.T + ") 0) (<= (refOf " + v.T + ") " + ex.get(st, "alloc") + "))")
			// safety mode: interface parameters (other than error / empty interface) are non-nil at entry
			if safety && deref {
				vc.assume(ex.nnAny(v.T, t))
			}
			if safety && ex.strongIface(t) {
				vc.assume(wfIface(v.T))
			}
		}
		if safety && s.K == KRef && (s.Name == "func" && deref || s.Name == "cell") {
			vc.assume("(> " + v.T + " 0)")
		}
		if s.K == KString || s.K == KInt || s.K == KBool {
			syms = append(syms, [2]string{name, v.T})
		}
		return v
	}
	for k, p := range fn.Params {
		deref = derefsParam(fn, k)
		args = append(args, mkParam(p.Name(), p.Type()))
	}
	deref = true
	// scalar fields of pointer parameters at entry are model inputs too (for replay)
	for i, p := range fn.Params {
		if args[i].S.K == KRef {
			if si := d.w.structs[args[i].S.Name]; si != nil {
				for _, f := range si.Fields {
					if f.Sort.K == KInt || f.Sort.K == KString || f.Sort.K == KBool {
						syms = append(syms, [2]string{p.Name() + "." + f.Name, "(select " + ex.get(st, ex.fieldVar(si.Name, f.Name, f.Sort)) + " " + args[i].T + ")"})
					}
				}
			}
		}
	}
	for g := range d.spec.ghosts {
		if gs := d.spec.ghosts[g]; gs.K == KInt {
			syms = append(syms, [2]string{"ghost." + g, ex.get(st, g)})
		}
	}
	var binds []*Val
	for _, fv := range fn.FreeVars {
		b := mkParam("fv_"+fv.Name(), fv.Type())
		binds = append(binds, b)
		if safety {
			// captured variables: the cell exists and a captured pointer / interface is non-nil
			if pt, ok := fv.Type().Underlying().(*types.Pointer); ok && capturedNonNil(ex, pt.Elem()) {
				es := d.w.SortOf(pt.Elem())
				cell := "(select " + ex.get(st, ex.cellVar(es)) + " " + b.T + ")"
				if es.K == KRef {
					vc.assume("(> " + cell + " 0)")
				} else if es.K == KAny {
					vc.assume(ex.nnAny(cell, pt.Elem()))
				}
			}
		}
	}
	for _, p := range args {
		_ = p
	}
	entry := st.Clone()
	env := &Env{ex: ex, vars: map[string]*Val{}, cur: entry, old: entry}
	for i, p := range fn.Params {
		env.vars[p.Name()] = args[i]
	}
	// the synthetic package initialiser runs once: its guard variable is false at entry
	if fn.Name() == "init" && fn.Synthetic != "" {
		for _, m := range fn.Pkg.Members {
			if g, ok := m.(*ssa.Global); ok && g.Name() == "init$guard" {
				gv := fr0val(ex, st, g)
				if gv != "" {
					vc.assume(not(gv))
				}
			}
		}
	}
	// global invariants hold at entry of every function except package init
	if fn.Name() != "init" && !strings.HasPrefix(fn.Name(), "init#") && c != nil {
		for _, gi := range d.cs.GlobalInvs {
			if contains(c.Assumes, gi.Label) {
				vc.assume(ex.trBool(gi.Expr, env))
			}
		}
	}
	if c != nil {
		for _, rq := range c.Requires {
			if rq.SafetyOnly && !ex.safety {
				continue
			}
			vc.assume(ex.trBool(rq.Expr, env))
		}
		for _, rq := range c.Assumed {
			vc.assume(ex.trBool(rq.Expr, env))
			vc.note("assumed data-structure invariant of " + key + ": " + rq.Src)
		}
	}
	if c != nil && ex.lockCheck {
		for _, hp := range c.Holds {
			if pv, ok := env.vars[hp]; ok {
				vc.assume("(select " + ex.get(st, ex.regSV("held", d.spec.ghosts["held"])) + " " + pv.T + ")")
			}
		}
	}
	d.captureObligations(ex, fn, key)
	d.aliasObligations(ex, fn, key)
	o := vc.oblige("vacuity", key+"/vacuity:requires-satisfiable", "true", "false", "preconditions and invariants are jointly satisfiable", "", nil)
	o.Expect = "sat"
	results, out, retReach := ex.execFunction(fn, args, binds, st, "true", true, c)
	if retReach == "false" {
		vc.note("function has no normal return (infinite loop)")
		return
	}
	o = vc.oblige("vacuity", key+"/vacuity:exit-reachable", retReach, "false", "some return is reachable under the assumptions", "", nil)
	o.Expect = "sat"
	if c == nil {
		return
	}
	env2 := &Env{ex: ex, vars: map[string]*Val{}, cur: out, old: entry}
	for k, v := range env.vars {
		env2.vars[k] = v
	}
	var res *Val
	switch len(results) {
	case 0:
	case 1:
		res = results[0]
	default:
		res = &Val{Tup: results, S: &Sort{K: KTuple}}
	}
	bindResults(env2, fn.Signature, res)
	nplain := -1
	for _, en := range c.Ensures {
		label := en.Label
		if label == "" {
			nplain++ // unlabelled clauses are numbered among themselves, so adding a labelled clause renames nothing
			label = fmt.Sprint(nplain)
		}
		if en.SafetyOnly && !ex.safety {
			continue
		}
		g := ex.trBool(en.Expr, env2)
		kind := "post"
		if en.SafetyOnly {
			kind = "spost"
		}
		vc.oblige(kind, ex.oblName(key+"/"+kind+":"+label), retReach, g, en.Src, ex.posOf(fn.Pos()), syms)
	}
	// frame
	if c.HasMod {
		declared := map[string][]ModLoc{}
		for _, mc := range c.Modifies {
			for _, loc := range ex.resolveModLoc(mc.Expr, env) {
				declared[loc.Var] = append(declared[loc.Var], loc)
			}
		}
		vars := []string{}
		if out.epoch != 0 {
			for v := range ex.sv.sorts {
				vars = append(vars, v)
			}
		} else {
			for v := range out.vars {
				vars = append(vars, v)
			}
		}
		sort.Strings(vars)
		alloc0 := ex.get(entry, "alloc")
		for _, v := range vars {
			if !(strings.HasPrefix(v, "H_") || strings.HasPrefix(v, "MD_") || strings.HasPrefix(v, "MV_") || strings.HasPrefix(v, "G_")) {
				if _, isGhost := d.spec.ghosts[v]; !isGhost || v == "held" || v == "now" {
					continue
				}
			}
			before, after := ex.get(entry, v), ex.get(out, v)
			if before == after {
				continue
			}
			locs := declared[v]
			all := false
			for _, l := range locs {
				if l.All {
					all = true
				}
			}
			if all {
				continue
			}
			s := ex.svSort(v)
			var g string
			if s.K != KArr || s.Key.K != KInt {
				g = eq(before, after)
			} else {
				sk := vc.fresh("frame_sk", SInt)
				conds := []string{"(>= " + sk + " 0)", "(<= " + sk + " " + alloc0 + ")"}
				for _, l := range locs {
					conds = append(conds, not(eq(sk, l.Obj)))
				}
				g = imp(and(conds...), eq("(select "+after+" "+sk+")", "(select "+before+" "+sk+")"))
			}
			vc.oblige("frame", ex.oblName(key+"/frame:"+v), retReach, g, "only declared locations of "+v+" are modified", ex.posOf(fn.Pos()), nil)
		}
	}
	return
}

// QueryText renders the SMT-LIB query for an obligation.
func (d *Driver) QueryText(vc *VC, o *Obl) string {
	var body strings.Builder
	for _, c := range vc.cmds[:o.Prefix] {
		body.WriteString(c)
		body.WriteString("\n")
	}
	body.WriteString("(assert " + o.Reach + ")\n")
	if o.Expect != "sat" {
		body.WriteString("(assert (not " + o.Goal + "))\n")
	}
	body.WriteString("(check-sat)\n")
	if o.Expect != "sat" && len(o.Syms) > 0 {
		terms := []string{}
		for _, s := range o.Syms {
			terms = append(terms, s[1])
		}
		body.WriteString("(get-value (" + strings.Join(terms, " ") + "))\n")
	}
	bs := body.String()
	// chunks forced by the contract of the function being verified
	force := ""
	if c, ok := d.cs.Funcs[vc.fn]; ok {
		for _, u := range c.Uses {
			for _, ch := range d.chunks {
				if ch.name == u {
					force += " " + strings.Join(ch.triggers, " ")
				}
			}
		}
	}
	pre := d.preludeFor(bs + force)
	pre = strings.Replace(pre, ";@@DATA@@\n", d.dataDecls(), 1)
	return "(set-option :produce-models true)\n(set-logic ALL)\n" + pre + "; ---- VC for " + o.Name + "\n" + bs
}

// captureObligations: a closure created inside a loop must not capture (by reference) a variable that
// lives across iterations and is reassigned inside the loop - otherwise closures created in different
// iterations share, and later observe, each other's values. One obligation per captured variable.
func (d *Driver) captureObligations(ex *Exec, fn *ssa.Function, key string) {
	loops := computeLoops(fn)
	for _, b := range fn.Blocks {
		for _, ins := range b.Instrs {
			mc, ok := ins.(*ssa.MakeClosure)
			if !ok {
				continue
			}
			for _, bind := range mc.Bindings {
				al, ok := bind.(*ssa.Alloc)
				if !ok {
					continue
				}
				goal := "true"
				why := ""
				for _, li := range loops {
					if !li.body[b.Index] {
						continue
					}
					if al.Block() != nil && li.body[al.Block().Index] {
						continue // a fresh variable per iteration
					}
					// allocated outside the loop: is it assigned inside the loop?
					for _, bb := range fn.Blocks {
						if !li.body[bb.Index] {
							continue
						}
						for _, i2 := range bb.Instrs {
							if st, ok := i2.(*ssa.Store); ok && st.Addr == al {
								goal = "false"
								why = " (assigned at " + ex.posOf(st.Pos()) + " inside the loop that creates the closure)"
							}
						}
					}
				}
				name := ex.oblName(key + "/capture-stable@" + al.Comment + ":" + mc.Fn.Name())
				ex.vc.oblige("capture-stable", name, "true", goal, "variable "+al.Comment+" captured by closure "+mc.Fn.Name()+" is not shared across loop iterations"+why, ex.posOf(mc.Pos()), nil)
			}
		}
	}
}

// DisciplineHeaderName generates the dependency-discipline obligations for Header.name (C17):
// a value loaded from that field may only flow into isSameHeader, into a fmt argument (printing the
// name as received) or into another Header.name; any other use (==, switch, map key, strings.*) would
// make behaviour depend on the spelling of a header name.
func (d *Driver) DisciplineHeaderName() *FuncVC {
	ex := d.newExec(nil, "discipline/header-name", false)
	fvc := &FuncVC{Key: "discipline/header-name", VC: ex.vc}
	keys := []string{}
	for k := range d.fns {
		if !strings.Contains(k, "@") {
			keys = append(keys, k)
		}
	}
	sort.Strings(keys)
	for _, k := range keys {
		fn := d.fns[k]
		if strings.HasSuffix(prog_file(d, fn), "_test.go") {
			continue
		}
		for _, b := range fn.Blocks {
			for _, ins := range b.Instrs {
				ld, ok := ins.(*ssa.UnOp)
				if !ok || ld.Op != token.MUL {
					continue
				}
				fa, ok := ld.X.(*ssa.FieldAddr)
				if !ok {
					continue
				}
				pt, ok := fa.X.Type().Underlying().(*types.Pointer)
				if !ok {
					continue
				}
				si, ok := d.w.structOf(pt.Elem())
				if !ok || si.Name != "Header" || si.Fields[fa.Field].Name != "name" {
					continue
				}
				for _, ref := range *ld.Referrers() {
					okUse := false
					what := ref.String()
					switch r := ref.(type) {
					case *ssa.DebugRef:
						continue
					case *ssa.Call:
						if callee, ok := r.Call.Value.(*ssa.Function); ok && callee.Pkg == d.pkg && callee.Name() == "isSameHeader" {
							okUse = true
							what = "argument of isSameHeader"
						}
					case *ssa.MakeInterface:
						// boxed for a fmt call (printing the name unchanged)
						okUse = true
						what = "fmt argument"
						for _, rr := range *r.Referrers() {
							if _, isStore := rr.(*ssa.Store); !isStore {
								if _, isDbg := rr.(*ssa.DebugRef); !isDbg {
									okUse = false
								}
							}
						}
					case *ssa.Store:
						if fa2, ok := r.Addr.(*ssa.FieldAddr); ok {
							if pt2, ok := fa2.X.Type().Underlying().(*types.Pointer); ok {
								if si2, ok := d.w.structOf(pt2.Elem()); ok && si2.Name == "Header" && si2.Fields[fa2.Field].Name == "name" {
									okUse = true
									what = "copied into another Header.name"
								}
							}
						}
					}
					goal := "true"
					if !okUse {
						goal = "false"
					}
					if len(what) > 70 {
						what = what[:70]
					}
					name := ex.oblName(k + "/name-via-canon@" + what)
					o := ex.vc.oblige("name-via-canon", name, "true", goal, "Header.name is used only through isSameHeader / printed unchanged: "+ref.String(), ex.posOf(ref.Pos()), nil)
					o.Fn = k
				}
			}
		}
	}
	return fvc
}

func prog_file(d *Driver, fn *ssa.Function) string {
	if !fn.Pos().IsValid() {
		return ""
	}
	return d.prog.Fset.Position(fn.Pos()).Filename
}

var declMu sync.Mutex

// dataDecls renders sort/datatype/sequence declarations (serialised: the registries are shared).
func (d *Driver) dataDecls() string {
	declMu.Lock()
	defer declMu.Unlock()
	// two passes: rendering may register further sequence sorts
	d.w.DataDecls()
	return d.w.DataDecls()
}

// fr0val reads a boolean package-level variable in state st ("" if it is not a tracked state variable).
func fr0val(ex *Exec, st *State, g *ssa.Global) string {
	name := "G_" + sanitize(g.Pkg.Pkg.Name()+"_"+g.Name())
	elem := g.Type().(*types.Pointer).Elem()
	s := ex.w.SortOf(elem)
	if s.K != KBool {
		return ""
	}
	ex.regSV(name, s)
	return ex.get(st, name)
}
