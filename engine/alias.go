package main

import (
	"fmt"
	"go/types"

	"golang.org/x/tools/go/ssa"
)

// aliasObligations guards the one assumption of the value-semantic slice model that code can break silently
// (A-alias: no two live slices share a backing array): an append whose destination is a sub-slice of another
// slice writes into that slice's backing array. This is only accepted for the in-place idiom
//
//	x.f = append(x.f[:i], x.f[j:]...)        (the result replaces the very slice it was cut from)
//
// and for slices the function made itself. Any other append onto a sub-slice of a slice that came from outside
// (a parameter, a field, a call result) is reported: in the model it would be computed on a private copy, in Go it
// overwrites the other slice's elements.
func (d *Driver) aliasObligations(ex *Exec, fn *ssa.Function, key string) {
	n := 0
	for _, b := range fn.Blocks {
		for _, ins := range b.Instrs {
			call, ok := ins.(*ssa.Call)
			if !ok {
				continue
			}
			bi, ok := call.Call.Value.(*ssa.Builtin)
			if !ok || bi.Name() != "append" || len(call.Call.Args) == 0 {
				continue
			}
			base := sliceBase(call.Call.Args[0], map[ssa.Value]bool{})
			if base == nil {
				continue // the destination is not a sub-slice of anything
			}
			name := fmt.Sprintf("%s/alias-append@%s", key, exprText(ex, call))
			if n > 0 {
				name = fmt.Sprintf("%s#%d", name, n+1)
			}
			n++
			why, ok2 := aliasAllowed(base, call)
			o := ex.vc.oblige("alias", name, "true", fmt.Sprint(ok2), "an append onto a sub-slice writes into the backing array of the slice it was cut from: "+why, ex.posOf(call.Pos()), nil)
			if ok2 {
				o.Decided = "unsat"
			} else {
				o.Decided = "sat"
			}
		}
	}
}

// sliceBase: if v is (through phis and re-slicing) a sub-slice x[i:j] of some slice value, return that x.
func sliceBase(v ssa.Value, seen map[ssa.Value]bool) ssa.Value {
	if seen[v] {
		return nil
	}
	seen[v] = true
	switch x := v.(type) {
	case *ssa.Slice:
		if _, isPtr := x.X.Type().Underlying().(*types.Pointer); isPtr {
			if _, isAlloc := x.X.(*ssa.Alloc); isAlloc {
				return nil // a view of an array allocated by this function (make, varargs)
			}
			return x.X
		}
		if inner := sliceBase(x.X, seen); inner != nil {
			return inner
		}
		return x.X
	case *ssa.Phi:
		for _, e := range x.Edges {
			if b := sliceBase(e, seen); b != nil {
				return b
			}
		}
	}
	return nil
}

// aliasAllowed decides whether appending onto a sub-slice of base is one of the accepted idioms.
func aliasAllowed(base ssa.Value, app *ssa.Call) (string, bool) {
	switch b := base.(type) {
	case *ssa.MakeSlice:
		return "the slice was made by this function", true
	case *ssa.Slice:
		// slicing a pointer to an array (new [n]T): a fresh array of this function
		return "the slice views an array allocated by this function", true
	case *ssa.Call:
		if bi, ok := b.Call.Value.(*ssa.Builtin); ok && bi.Name() == "append" {
			return "the slice is itself the result of an append in this function", true
		}
	case *ssa.UnOp:
		// loaded from a location: accepted only when the result of the append is stored back to the same location
		if refs := app.Referrers(); refs != nil {
			for _, r := range *refs {
				if st, ok := r.(*ssa.Store); ok && sameAddr(st.Addr, b.X) {
					return "in-place edit: the result replaces the slice it was cut from", true
				}
			}
		}
		return "the destination is a sub-slice of a slice loaded from the heap and the result does not replace it", false
	}
	return "the destination is a sub-slice of a slice that came from outside the function (parameter, call result)", false
}

func sameAddr(a, b ssa.Value) bool {
	if a == b {
		return true
	}
	fa, ok1 := a.(*ssa.FieldAddr)
	fb, ok2 := b.(*ssa.FieldAddr)
	return ok1 && ok2 && fa.Field == fb.Field && fa.X == fb.X
}
