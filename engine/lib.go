package main

import (
	"fmt"
	"go/types"
	"strconv"
	"strings"

	"golang.org/x/tools/go/ssa"
)

type libFn func(fr *Frame, ins ssa.Instruction, args []*Val, resSort *Sort) *Val
type libInvokeFn func(fr *Frame, ins ssa.Instruction, recv *Val, args []*Val, resSort *Sort) *Val

var libModels map[string]libFn
var libInvoke map[string]libInvokeFn
var libInvokeMods = map[string][]string{
	"io.Writer.Write":    {"W"},
	"net.Conn.Write":     {"wok", "wbytes", "wfail"},
	"net.Conn.Close":     {"closedC"},
	"net.Listener.Close": {},
}

func libAllocates(name string) bool {
	switch name {
	case "bytes.NewBuffer", "bytes.NewBufferString", "strings.NewReader", "io.LimitReader", "bufio.NewReader", "bufio.NewReaderSize", "errors.New", "fmt.Errorf", "net.DialTCP", "net.Dial", "net.ResolveUDPAddr", "net.ResolveTCPAddr", "regexp.Compile":
		return true
	}
	return false
}

// libModVars: state variables a library function may write.
func libModVars(ex *Exec, name string) []string {
	reg := func(vs ...string) []string {
		for _, v := range vs {
			if s, ok := ex.spec.ghosts[v]; ok {
				ex.regSV(v, s)
			}
		}
		return vs
	}
	switch name {
	case "fmt.Fprintf", "(*bytes.Buffer).Write", "(*bytes.Buffer).WriteString":
		return reg("W")
	case "bytes.NewBuffer":
		return reg("W", "RS")
	case "bufio.NewReader", "bufio.NewReaderSize", "(*bufio.Reader).ReadByte", "(*bufio.Reader).UnreadByte", "(*bufio.Reader).ReadLine", "io.ReadAll", "(*bufio.Reader).Peek", "(*bufio.Reader).Discard":
		return reg("RS", "RU", "RE")
	case "strings.NewReader", "bytes.NewBufferString":
		return reg("RS", "W")
	case "io.LimitReader":
		return reg("limitMarks")
	case "time.Now":
		return reg("now")
	default:
		if strings.HasPrefix(name, "(*bufio.Reader).") {
			return reg("RS", "RU", "RE")
		}
	case "github.com/google/uuid.NewRandom":
		return reg("uuidDraws")
	case "net.DialTCP", "net.Dial":
		return reg("dials", "dialok")
	case "(*sync.Mutex).Lock", "(*sync.Mutex).Unlock":
		return reg("held")
	case "(*net.UDPConn).WriteToUDP":
		return reg("sent")
	}
	return nil
}

func (fr *Frame) ghost(name string) string {
	ex := fr.ex
	s, ok := ex.spec.ghosts[name]
	if !ok {
		panic("ghost state variable " + name + " not declared in prelude")
	}
	return ex.regSV(name, s)
}

func tuple(vals ...*Val) *Val {
	s := &Sort{K: KTuple}
	for _, v := range vals {
		s.Tuple = append(s.Tuple, v.S)
	}
	return &Val{S: s, Tup: vals}
}

func (fr *Frame) freshErr(hint string) *Val {
	// a non-nil error value
	ex := fr.ex
	r := ex.alloc(fr.cur, "err")
	id := ex.typeIDByName("*errors.errorString")
	return &Val{T: fmt.Sprintf("(mkAny %d %s \"\")", id, r), S: SAny}
}

func (fr *Frame) anyErr(hint string) *Val {
	// nil or non-nil error, unconstrained
	v := fr.havocVal(hint, SAny)
	return v
}

func unit() *Val { return &Val{T: "false", S: SUnit} }

// ownerOf returns the reference of the object a field pointer points into (for mutexes).
func ownerOf(v *Val) string {
	if v.Ptr != nil && v.Ptr.Kind == "field" {
		return v.Ptr.Ref
	}
	return v.T
}

func init() {
	libInvoke = map[string]libInvokeFn{
		"net.Conn.Write": func(fr *Frame, ins ssa.Instruction, recv *Val, args []*Val, rs *Sort) *Val {
			// io.Writer contract: either the whole buffer is written and err == nil, or err != nil
			ex := fr.ex
			vc := ex.vc
			errv := fr.havocVal("cwerr", SAny)
			n := vc.fresh("cwn", SInt)
			vc.assume(and("(>= "+n+" 0)", "(<= "+n+" (str.len "+args[0].T+"))", imp(eq(errv.T, "anyNil"), eq(n, "(str.len "+args[0].T+")"))))
			ok := eq(errv.T, "anyNil")
			for _, g := range [][3]string{{"wok", recv.T, "1"}, {"wbytes", args[0].T, "1"}, {"wfail", recv.T, "0"}} {
				gv := fr.ghost(g[0])
				old := ex.get(fr.cur, gv)
				el := ex.svSort(gv).Elem
				app := sqApp(old, sqUnit(g[1], el), el)
				if g[2] == "1" {
					ex.set(fr.cur, gv, ite(ok, app, old))
				} else {
					ex.set(fr.cur, gv, ite(ok, old, app))
				}
			}
			return tuple(&Val{T: n, S: SInt}, errv)
		},
		"net.Addr.String": func(fr *Frame, ins ssa.Instruction, recv *Val, args []*Val, rs *Sort) *Val {
			// the printed form of a socket address resolves again (assumed library fact)
			r := fr.havocVal("addrstr", SString)
			fr.ex.vc.assume("(isSockAddr " + r.T + ")")
			return r
		},
		"net.Conn.Close": func(fr *Frame, ins ssa.Instruction, recv *Val, args []*Val, rs *Sort) *Val {
			ex := fr.ex
			gv := fr.ghost("closedC")
			ex.set(fr.cur, gv, sqApp(ex.get(fr.cur, gv), sqUnit(recv.T, SAny), SAny))
			return fr.havocVal("closeerr", SAny)
		},
		"io.Writer.Write": func(fr *Frame, ins ssa.Instruction, recv *Val, args []*Val, rs *Sort) *Val {
			return fr.writerWrite(recv, args[0].T)
		},
	}
	libModels = map[string]libFn{
		// ---- strings ----
		"strings.Index": func(fr *Frame, ins ssa.Instruction, a []*Val, rs *Sort) *Val {
			return &Val{T: "(str.indexof " + a[0].T + " " + a[1].T + " 0)", S: SInt}
		},
		"strings.IndexByte": func(fr *Frame, ins ssa.Instruction, a []*Val, rs *Sort) *Val {
			needle := "(str.from_code " + a[1].T + ")"
			if c, err := strconv.Atoi(a[1].T); err == nil && c >= 0x20 && c < 0x7f {
				needle = smtString(string(rune(c))) // a constant printable byte: write the character itself
			}
			return &Val{T: "(str.indexof " + a[0].T + " " + needle + " 0)", S: SInt}
		},
		"strings.LastIndex": func(fr *Frame, ins ssa.Instruction, a []*Val, rs *Sort) *Val {
			return &Val{T: "(lastIndexOf " + a[0].T + " " + a[1].T + ")", S: SInt}
		},
		"strings.HasPrefix": func(fr *Frame, ins ssa.Instruction, a []*Val, rs *Sort) *Val {
			return &Val{T: "(str.prefixof " + a[1].T + " " + a[0].T + ")", S: SBool}
		},
		"strings.HasSuffix": func(fr *Frame, ins ssa.Instruction, a []*Val, rs *Sort) *Val {
			return &Val{T: "(str.suffixof " + a[1].T + " " + a[0].T + ")", S: SBool}
		},
		"strings.Contains": func(fr *Frame, ins ssa.Instruction, a []*Val, rs *Sort) *Val {
			return &Val{T: "(str.contains " + a[0].T + " " + a[1].T + ")", S: SBool}
		},
		"strings.TrimSpace": func(fr *Frame, ins ssa.Instruction, a []*Val, rs *Sort) *Val {
			return &Val{T: "(trimSpace " + a[0].T + ")", S: SString}
		},
		"strings.ToLower": func(fr *Frame, ins ssa.Instruction, a []*Val, rs *Sort) *Val {
			return &Val{T: "(lower " + a[0].T + ")", S: SString}
		},
		"strings.EqualFold": func(fr *Frame, ins ssa.Instruction, a []*Val, rs *Sort) *Val {
			return &Val{T: "(= (lower " + a[0].T + ") (lower " + a[1].T + "))", S: SBool}
		},
		"strings.Split": func(fr *Frame, ins ssa.Instruction, a []*Val, rs *Sort) *Val {
			return &Val{T: fr.ex.vc.define("split", SSeq(SString), "(split "+a[0].T+" "+a[1].T+")"), S: SSeq(SString)}
		},
		"strings.Fields": func(fr *Frame, ins ssa.Instruction, a []*Val, rs *Sort) *Val {
			return &Val{T: fr.ex.vc.define("fields", SSeq(SString), "(fields "+a[0].T+")"), S: SSeq(SString)}
		},
		"strings.Join": func(fr *Frame, ins ssa.Instruction, a []*Val, rs *Sort) *Val {
			return &Val{T: "(join " + a[0].T + " " + a[1].T + ")", S: SString}
		},
		"strings.Replace": func(fr *Frame, ins ssa.Instruction, a []*Val, rs *Sort) *Val {
			// only n = -1 is used
			return &Val{T: "(str.replace_all " + a[0].T + " " + a[1].T + " " + a[2].T + ")", S: SString}
		},
		// ---- strconv ----
		"strconv.Atoi": func(fr *Frame, ins ssa.Instruction, a []*Val, rs *Sort) *Val {
			ex := fr.ex
			errv := fr.havocVal("atoi_err", SAny)
			ex.vc.assume("(= (= " + errv.T + " anyNil) (atoiOk " + a[0].T + "))")
			v := ex.vc.define("atoi", SInt, "(ite (atoiOk "+a[0].T+") (atoiVal "+a[0].T+") 0)")
			return tuple(&Val{T: v, S: SInt}, errv)
		},
		"strconv.Itoa": func(fr *Frame, ins ssa.Instruction, a []*Val, rs *Sort) *Val {
			return &Val{T: "(itoa " + a[0].T + ")", S: SString}
		},
		// ---- errors / fmt ----
		"errors.New": func(fr *Frame, ins ssa.Instruction, a []*Val, rs *Sort) *Val {
			return fr.freshErr("errors_new")
		},
		"fmt.Errorf": func(fr *Frame, ins ssa.Instruction, a []*Val, rs *Sort) *Val {
			return fr.freshErr("errorf")
		},
		"fmt.Sprintf": func(fr *Frame, ins ssa.Instruction, a []*Val, rs *Sort) *Val {
			t := fr.fmtExpand(ins, a[0], a[1])
			return &Val{T: fr.ex.vc.define("sprintf", SString, t), S: SString}
		},
		"fmt.Fprintf": func(fr *Frame, ins ssa.Instruction, a []*Val, rs *Sort) *Val {
			t := fr.ex.vc.define("fprintf", SString, fr.fmtExpand(ins, a[1], a[2]))
			return fr.writerWrite(a[0], t)
		},
		"bytes.NewBuffer": func(fr *Frame, ins ssa.Instruction, a []*Val, rs *Sort) *Val {
			ex := fr.ex
			r := ex.alloc(fr.cur, "buf")
			wv := fr.ghost("W")
			ex.set(fr.cur, wv, "(store "+ex.get(fr.cur, wv)+" "+r+" "+a[0].T+")")
			fr.setStream(r, a[0].T)
			return &Val{T: r, S: SRef("bytes_Buffer")}
		},
		"bytes.NewBufferString": func(fr *Frame, ins ssa.Instruction, a []*Val, rs *Sort) *Val {
			ex := fr.ex
			r := ex.alloc(fr.cur, "buf")
			wv := fr.ghost("W")
			ex.set(fr.cur, wv, "(store "+ex.get(fr.cur, wv)+" "+r+" "+a[0].T+")")
			fr.setStream(r, a[0].T)
			return &Val{T: r, S: SRef("bytes_Buffer")}
		},
		"strings.NewReader": func(fr *Frame, ins ssa.Instruction, a []*Val, rs *Sort) *Val {
			r := fr.ex.alloc(fr.cur, "strreader")
			fr.setStream(r, a[0].T)
			return &Val{T: r, S: SRef("strings_Reader")}
		},
		"bufio.NewReader": func(fr *Frame, ins ssa.Instruction, a []*Val, rs *Sort) *Val {
			return fr.newBufioReader(ins, a[0])
		},
		"bufio.NewReaderSize": func(fr *Frame, ins ssa.Instruction, a []*Val, rs *Sort) *Val {
			return fr.newBufioReader(ins, a[0])
		},
		"(*bufio.Reader).ReadByte": func(fr *Frame, ins ssa.Instruction, a []*Val, rs *Sort) *Val {
			// one byte is delivered, or an error (always at end of stream) and nothing is consumed
			ex := fr.ex
			rd := a[0].T
			cur := fr.stream(rd)
			errv := fr.havocVal("rberr", SAny)
			ok := eq(errv.T, "anyNil")
			ex.vc.assume(imp(eq(cur, "\"\""), not(ok)))
			b := ex.vc.define("rbyte", SInt, ite(ok, "(str.to_code (str.at "+cur+" 0))", "0"))
			fr.setStream(rd, ite(ok, "(str.substr "+cur+" 1 (str.len "+cur+"))", cur))
			fr.setGhostAt("RU", rd, ite(ok, "(str.at "+cur+" 0)", "\"\""))
			fr.bumpEpoch(rd)
			return tuple(&Val{T: b, S: SInt}, errv)
		},
		"(*bufio.Reader).UnreadByte": func(fr *Frame, ins ssa.Instruction, a []*Val, rs *Sort) *Val {
			// succeeds exactly when the last operation was a successful ReadByte (or a read that left a byte to restore)
			ex := fr.ex
			rd := a[0].T
			cur := fr.stream(rd)
			ru := "(select " + ex.get(fr.cur, fr.ghost("RU")) + " " + rd + ")"
			errv := fr.havocVal("uberr", SAny)
			ok := eq(errv.T, "anyNil")
			ex.vc.assume(eq(ok, not(eq(ru, "\"\""))))
			fr.setStream(rd, ite(ok, "(str.++ "+ru+" "+cur+")", cur))
			fr.setGhostAt("RU", rd, "\"\"")
			fr.bumpEpoch(rd)
			return errv
		},
		"(*bufio.Reader).Buffered": func(fr *Frame, ins ssa.Instruction, a []*Val, rs *Sort) *Val {
			// some of the undelivered bytes are already in the window: how many depends on segmentation
			n := fr.havocVal("buffered", SInt)
			fr.ex.vc.assume(and("(>= "+n.T+" 0)", "(<= "+n.T+" (str.len "+fr.stream(a[0].T)+"))"))
			return n
		},
		"(*bufio.Reader).Peek": func(fr *Frame, ins ssa.Instruction, a []*Val, rs *Sort) *Val {
			// the next n bytes without consuming them; the slice is a view of the reader's window
			ex := fr.ex
			rd := a[0].T
			cur := fr.stream(rd)
			errv := fr.havocVal("peekerr", SAny)
			k := "(ite (<= " + a[1].T + " (str.len " + cur + ")) " + a[1].T + " (str.len " + cur + "))"
			ex.vc.assume(imp(eq(errv.T, "anyNil"), "(<= "+a[1].T+" (str.len "+cur+"))"))
			res := ex.vc.define("peek", SString, "(str.substr "+cur+" 0 "+k+")")
			fr.bumpEpoch(rd)
			re := "(select " + ex.get(fr.cur, fr.ghost("RE")) + " " + rd + ")"
			return tuple(&Val{T: res, S: SString, Borrow: &Borrow{Active: "true", Reader: rd, Epoch: ex.vc.define("peekepoch", SInt, re)}}, errv)
		},
		"(*bufio.Reader).Discard": func(fr *Frame, ins ssa.Instruction, a []*Val, rs *Sort) *Val {
			ex := fr.ex
			rd := a[0].T
			cur := fr.stream(rd)
			errv := fr.havocVal("discarderr", SAny)
			got := ex.vc.fresh("discarded", SInt)
			k := "(ite (<= " + a[1].T + " (str.len " + cur + ")) " + a[1].T + " (str.len " + cur + "))"
			ex.vc.assume(and("(>= "+got+" 0)", "(<= "+got+" "+k+")", imp(eq(errv.T, "anyNil"), eq(got, a[1].T))))
			fr.setStream(rd, "(str.substr "+cur+" "+got+" (str.len "+cur+"))")
			fr.setGhostAt("RU", rd, "\"\"")
			fr.bumpEpoch(rd)
			return tuple(&Val{T: got, S: SInt}, errv)
		},
		"(*bufio.Reader).ReadLine": func(fr *Frame, ins ssa.Instruction, a []*Val, rs *Sort) *Val {
			return fr.readLine(a[0])
		},
		"io.LimitReader": func(fr *Frame, ins ssa.Instruction, a []*Val, rs *Sort) *Val {
			ex := fr.ex
			r := ex.alloc(fr.cur, "limitreader")
			v := &Val{T: fmt.Sprintf("(mkAny %d %s \"\")", ex.typeIDByName("*io.LimitedReader"), r), S: SAny}
			if src := readerRef(a[0]); src != "" {
				v.Lim = &LimInfo{Src: src, N: a[1].T}
				g := fr.ghost("limitMarks")
				ex.set(fr.cur, g, sqApp(ex.get(fr.cur, g), sqUnit(fr.stream(src), SString), SString))
			}
			return v
		},
		"io.ReadAll": func(fr *Frame, ins ssa.Instruction, a []*Val, rs *Sort) *Val {
			// reads until end of stream or error; through a LimitReader at most N bytes
			ex := fr.ex
			errv := fr.havocVal("raerr", SAny)
			if a[0].Lim == nil {
				ex.vc.note("io.ReadAll on an untracked reader: result unconstrained")
				return tuple(fr.havocVal("readall", SString), errv)
			}
			src, n := a[0].Lim.Src, a[0].Lim.N
			cur := fr.stream(src)
			k := ex.vc.define("rak", SInt, "(ite (< "+n+" 0) 0 (ite (<= "+n+" (str.len "+cur+")) "+n+" (str.len "+cur+")))")
			got := ex.vc.fresh("ragot", SInt) // bytes delivered before an error, all of them without
			ex.vc.assume(and("(>= "+got+" 0)", "(<= "+got+" "+k+")", imp(eq(errv.T, "anyNil"), eq(got, k))))
			res := ex.vc.define("readall", SString, "(str.substr "+cur+" 0 "+got+")")
			fr.setStream(src, "(str.substr "+cur+" "+got+" (str.len "+cur+"))")
			fr.setGhostAt("RU", src, "\"\"")
			fr.bumpEpoch(src)
			return tuple(&Val{T: res, S: SString}, errv)
		},
		"(*bytes.Buffer).String": func(fr *Frame, ins ssa.Instruction, a []*Val, rs *Sort) *Val {
			return &Val{T: "(select " + fr.ex.get(fr.cur, fr.ghost("W")) + " " + a[0].T + ")", S: SString}
		},
		"(*bytes.Buffer).Bytes": func(fr *Frame, ins ssa.Instruction, a []*Val, rs *Sort) *Val {
			return &Val{T: "(select " + fr.ex.get(fr.cur, fr.ghost("W")) + " " + a[0].T + ")", S: SString}
		},
		// ---- sync ----
		"(*sync.Mutex).Lock": func(fr *Frame, ins ssa.Instruction, a []*Val, rs *Sort) *Val {
			ex := fr.ex
			h := fr.ghost("held")
			o := ownerOf(a[0])
			if ex.safety || ex.lockCheck {
				ex.vc.oblige("lock", ex.oblName(fr.key+"/no-relock"), fr.curReach, "(not (select "+ex.get(fr.cur, h)+" "+o+"))", "mutex not already held by this thread", ex.posOf(ins.Pos()), nil)
			}
			ex.set(fr.cur, h, "(store "+ex.get(fr.cur, h)+" "+o+" true)")
			return unit()
		},
		"(*sync.Mutex).Unlock": func(fr *Frame, ins ssa.Instruction, a []*Val, rs *Sort) *Val {
			ex := fr.ex
			h := fr.ghost("held")
			o := ownerOf(a[0])
			ex.set(fr.cur, h, "(store "+ex.get(fr.cur, h)+" "+o+" false)")
			return unit()
		},
		// ---- time ----
		"time.Now": func(fr *Frame, ins ssa.Instruction, a []*Val, rs *Sort) *Val {
			ex := fr.ex
			nv := fr.ghost("now")
			old := ex.get(fr.cur, nv)
			n := ex.havoc(fr.cur, nv)
			ex.vc.assume("(>= " + n + " " + old + ")")
			return &Val{T: n, S: SInt}
		},
		"(time.Time).Add": func(fr *Frame, ins ssa.Instruction, a []*Val, rs *Sort) *Val {
			return &Val{T: "(+ " + a[0].T + " " + a[1].T + ")", S: SInt}
		},
		"(time.Time).After": func(fr *Frame, ins ssa.Instruction, a []*Val, rs *Sort) *Val {
			return &Val{T: "(> " + a[0].T + " " + a[1].T + ")", S: SBool}
		},
		"(time.Time).Before": func(fr *Frame, ins ssa.Instruction, a []*Val, rs *Sort) *Val {
			return &Val{T: "(< " + a[0].T + " " + a[1].T + ")", S: SBool}
		},
		"(time.Time).Unix": func(fr *Frame, ins ssa.Instruction, a []*Val, rs *Sort) *Val {
			return &Val{T: "(div " + a[0].T + " 1000000000)", S: SInt}
		},
		"(time.Duration).Seconds": func(fr *Frame, ins ssa.Instruction, a []*Val, rs *Sort) *Val {
			return &Val{T: "(/ (to_real " + a[0].T + ") 1000000000.0)", S: SReal}
		},
		// ---- net ----
		"net.JoinHostPort": func(fr *Frame, ins ssa.Instruction, a []*Val, rs *Sort) *Val {
			return &Val{T: "(joinHostPort " + a[0].T + " " + a[1].T + ")", S: SString}
		},
		"net.SplitHostPort": func(fr *Frame, ins ssa.Instruction, a []*Val, rs *Sort) *Val {
			// host and port of "host:port"; the printed form of a socket address always splits
			errv := fr.havocVal("shperr", SAny)
			fr.ex.vc.assume(imp("(isSockAddr "+a[0].T+")", eq(errv.T, "anyNil")))
			return tuple(fr.havocVal("host", SString), fr.havocVal("port", SString), errv)
		},
		"net.ResolveUDPAddr": func(fr *Frame, ins ssa.Instruction, a []*Val, rs *Sort) *Val {
			return fr.resolveAddr(a[1], "net_UDPAddr")
		},
		"net.ResolveTCPAddr": func(fr *Frame, ins ssa.Instruction, a []*Val, rs *Sort) *Val {
			return fr.resolveAddr(a[1], "net_TCPAddr")
		},
		"(*net.UDPAddr).String": func(fr *Frame, ins ssa.Instruction, a []*Val, rs *Sort) *Val {
			return &Val{T: "(udpAddrString " + a[0].T + ")", S: SString}
		},
		"github.com/google/uuid.NewRandom": func(fr *Frame, ins ssa.Instruction, a []*Val, rs *Sort) *Val {
			// a random UUID: the drawn value is recorded in ghost uuidDraws; outcome (error) unconstrained
			ex := fr.ex
			u := fr.havocVal("uuid", SString)
			errv := fr.havocVal("uuiderr", SAny)
			g := fr.ghost("uuidDraws")
			ex.set(fr.cur, g, ite(eq(errv.T, "anyNil"), sqApp(ex.get(fr.cur, g), sqUnit(u.T, SString), SString), ex.get(fr.cur, g)))
			return tuple(u, errv)
		},
		"(github.com/google/uuid.UUID).String": func(fr *Frame, ins ssa.Instruction, a []*Val, rs *Sort) *Val {
			return &Val{T: "(uuidString " + a[0].T + ")", S: SString}
		},
		"os.Getenv": func(fr *Frame, ins ssa.Instruction, a []*Val, rs *Sort) *Val {
			return &Val{T: "(envValue " + a[0].T + ")", S: SString}
		},
		"(*net.UDPConn).ReadFromUDP": func(fr *Frame, ins ssa.Instruction, a []*Val, rs *Sort) *Val {
			// n bytes read into the buffer from a non-nil source address, or an error
			ex := fr.ex
			n := fr.havocVal("n", SInt)
			addr := fr.havocVal("udpaddr", SRef("net_UDPAddr"))
			errv := fr.havocVal("readerr", SAny)
			ex.vc.assume(imp(eq(errv.T, "anyNil"), and("(> "+addr.T+" 0)", "(>= "+n.T+" 0)", "(<= "+n.T+" (str.len "+a[1].T+"))")))
			return tuple(n, addr, errv)
		},
		"net.ParseIP": func(fr *Frame, ins ssa.Instruction, a []*Val, rs *Sort) *Val {
			// result modelled by length: 0 (nil) or 16
			return &Val{T: "(parseIP " + a[0].T + ")", S: SString}
		},
		"net.DialTCP": func(fr *Frame, ins ssa.Instruction, a []*Val, rs *Sort) *Val {
			return fr.dial(ins, false)
		},
		"net.Dial": func(fr *Frame, ins ssa.Instruction, a []*Val, rs *Sort) *Val {
			return fr.dial(ins, true)
		},
		"regexp.MatchString": func(fr *Frame, ins ssa.Instruction, a []*Val, rs *Sort) *Val {
			errv := fr.havocVal("re_err", SAny)
			fr.ex.vc.assume("(= (= " + errv.T + " anyNil) (reValid " + a[0].T + "))")
			return tuple(&Val{T: "(and (reValid " + a[0].T + ") (reMatch " + a[0].T + " " + a[1].T + "))", S: SBool}, errv)
		},
		"regexp.Compile": func(fr *Frame, ins ssa.Instruction, a []*Val, rs *Sort) *Val {
			// a compiled pattern is a fresh object that remembers its source text; compilation fails exactly on invalid patterns
			ex := fr.ex
			errv := fr.havocVal("re_err", SAny)
			r := ex.alloc(fr.cur, "re")
			ex.vc.assume("(= (= " + errv.T + " anyNil) (reValid " + a[0].T + "))")
			ex.vc.assume(imp(eq(errv.T, "anyNil"), eq("(rePattern "+r+")", a[0].T)))
			ps := SRef("regexp_Regexp")
			if rs != nil && rs.K == KTuple && len(rs.Tuple) == 2 {
				ps = rs.Tuple[0]
			}
			v := ex.vc.define("compiled", ps, ite(eq(errv.T, "anyNil"), r, "0"))
			return tuple(&Val{T: v, S: ps}, errv)
		},
		"(*regexp.Regexp).MatchString": func(fr *Frame, ins ssa.Instruction, a []*Val, rs *Sort) *Val {
			return &Val{T: "(reMatch (rePattern " + a[0].T + ") " + a[1].T + ")", S: SBool}
		},
	}
}

// writerWrite appends text to the ghost content of writer w (an Any holding the writer reference).
func (fr *Frame) writerWrite(wv *Val, text string) *Val {
	ex := fr.ex
	vc := ex.vc
	gw := fr.ghost("W")
	ref := "(refOf " + wv.T + ")"
	if wv.S.K == KRef {
		ref = wv.T
	}
	bufID := ex.typeIDByName("*bytes.Buffer")
	errv := fr.havocVal("werr", SAny)
	n := vc.fresh("wn", SInt)
	if wv.S.K == KAny {
		vc.assume(imp(fmt.Sprintf("(= (tyOf %s) %d)", wv.T, bufID), eq(errv.T, "anyNil")))
	} else {
		vc.assume(eq(errv.T, "anyNil"))
	}
	written := vc.fresh("written", SString)
	vc.assume(imp(eq(errv.T, "anyNil"), and(eq(written, text), eq(n, "(str.len "+text+")"))))
	vc.assume(and("(str.prefixof "+written+" "+text+")", eq(n, "(str.len "+written+")")))
	old := ex.get(fr.cur, gw)
	ex.set(fr.cur, gw, "(store "+old+" "+ref+" (str.++ (select "+old+" "+ref+") "+written+"))")
	return tuple(&Val{T: n, S: SInt}, errv)
}

// fmtExpand builds the string produced by a fmt call.
func (fr *Frame) fmtExpand(ins ssa.Instruction, format *Val, argSlice *Val) string {
	ex := fr.ex
	vc := ex.vc
	if format.Const == nil {
		// non-constant format string: only "no verbs => verbatim" is known
		if argSlice.Elems == nil || len(argSlice.Elems) == 0 {
			return "(fmtDyn " + format.T + ")"
		}
		vc.note("non-constant format with arguments: result unconstrained")
		return vc.fresh("fmtdyn", SString)
	}
	f := *format.Const
	var parts []string
	lit := func(s string) {
		if s != "" {
			parts = append(parts, smtString(s))
		}
	}
	argi := 0
	i := 0
	start := 0
	for i < len(f) {
		if f[i] != '%' {
			i++
			continue
		}
		lit(f[start:i])
		if i+1 >= len(f) {
			parts = append(parts, smtString("%!(NOVERB)"))
			i++
			start = i
			break
		}
		verb := f[i+1]
		i += 2
		start = i
		if verb == '%' {
			lit("%")
			continue
		}
		var arg *Val
		if argSlice.Elems != nil && argi < len(argSlice.Elems) {
			arg = argSlice.Elems[argi]
		}
		argi++
		if arg == nil {
			vc.note("fmt argument not tracked: result unconstrained")
			parts = append(parts, vc.fresh("fmtarg", SString))
			continue
		}
		parts = append(parts, fr.fmtArg(ins, verb, arg))
	}
	lit(f[start:])
	switch len(parts) {
	case 0:
		return "\"\""
	case 1:
		return parts[0]
	}
	return "(str.++ " + strings.Join(parts, " ") + ")"
}

// fmtArg renders one argument (boxed as interface; Elems[0] is the unboxed value).
func (fr *Frame) fmtArg(ins ssa.Instruction, verb byte, boxed *Val) string {
	ex := fr.ex
	vc := ex.vc
	v := boxed
	if boxed.S.K == KAny && boxed.Elems != nil && len(boxed.Elems) == 1 {
		v = boxed.Elems[0]
	}
	switch verb {
	case 's', 'v', 'd':
	default:
		vc.note(fmt.Sprintf("fmt verb %%%c abstracted", verb))
		return vc.fresh("fmtverb", SString)
	}
	// String() method on the static type?
	if v.GoT != nil && v.S.K != KAny {
		if m := ex.stringMethod(v.GoT); m != nil {
			r := fr.callStatic(ins, m, []*Val{v}, nil, SString)
			return r.T
		}
	}
	switch v.S.K {
	case KString:
		if verb == 'd' {
			return vc.fresh("fmtbad", SString)
		}
		return v.T
	case KInt:
		return "(itoa " + v.T + ")"
	case KBool:
		return "(ite " + v.T + " \"true\" \"false\")"
	case KAny:
		// dynamic dispatch on the value's type: string prints itself; typed values via anyString spec if present
		if sf, ok := ex.spec.funcs["anyString"]; ok {
			_ = sf
			e := &SExpr{Op: "call", Name: "anyString", Args: []*SExpr{{Op: "id", Name: "$x"}}}
			env := &Env{ex: ex, vars: map[string]*Val{"$x": v}, cur: fr.cur, old: fr.cur, fr: fr}
			return ex.tr(e, env).T
		}
		strID := ex.typeIDByName("string")
		other := vc.fresh("fmtany", SString)
		return fmt.Sprintf("(ite (= (tyOf %s) %d) (strOf %s) %s)", v.T, strID, v.T, other)
	}
	vc.note("fmt of " + v.S.String() + " abstracted")
	return vc.fresh("fmtval", SString)
}

func (fr *Frame) callLib(ins ssa.Instruction, callee *ssa.Function, args []*Val, resSort *Sort) *Val {
	ex := fr.ex
	name := libName(callee)
	if m, ok := libModels[name]; ok {
		return m(fr, ins, args, resSort)
	}
	// a contract for a library function may be given in the contract files ("func lib:strings.Foo")
	if c, ok := ex.cs.Funcs["lib:"+name]; ok {
		return fr.applyContract(ins, c, "lib:"+name, callee, callee.Signature, nil, args, resSort)
	}
	if strings.HasPrefix(name, "slices.Contains[") && len(args) == 2 && args[0].S.K == KSeq {
		// generic slices.Contains: membership (a slice literal with known elements is a plain disjunction)
		if args[0].Elems != nil {
			known := true
			parts := []string{}
			for _, e := range args[0].Elems {
				if e == nil {
					known = false
					break
				}
				parts = append(parts, eq(args[1].T, e.T))
			}
			if known {
				return &Val{T: or(parts...), S: SBool}
			}
		}
		return &Val{T: sqHas(args[0].T, args[1].T, args[0].S.Elem), S: SBool}
	}
	if strings.HasPrefix(name, "zap.") || strings.HasPrefix(name, "(*zap.Logger)") || strings.HasPrefix(name, "(*go.uber.org/zap") {
		return fr.havocVal("zap", resSort)
	}
	ex.vc.note("library call " + name + ": results unconstrained, no effect on tracked state")
	if strings.HasPrefix(name, "(*bufio.Reader).") && len(args) > 0 {
		// an unmodelled reader operation: what it leaves undelivered is unknown, earlier views are invalid
		fr.setStream(args[0].T, ex.vc.fresh("unkstream", SString))
		fr.setGhostAt("RU", args[0].T, ex.vc.fresh("unkunread", SString))
		fr.bumpEpoch(args[0].T)
	}
	r := fr.havocVal("lib_"+callee.Name(), resSort)
	switch name {
	case "(*net.UDPConn).LocalAddr", "(*net.UDPConn).RemoteAddr", "(*net.TCPConn).LocalAddr", "(*net.TCPConn).RemoteAddr", "(*net.conn).LocalAddr", "(*net.conn).RemoteAddr", "(*net.TCPListener).Addr", "go.uber.org/zap.L", "zap.L":
		if r.S.K == KAny {
			ex.vc.assume(not(eq(r.T, "anyNil")))
		} else if r.S.K == KRef {
			ex.vc.assume("(> " + r.T + " 0)")
		}
	}
	ex.libResultConvention(name, callee.Signature, r)
	return r
}

// ---- byte streams ----

func (fr *Frame) stream(ref string) string {
	return "(select " + fr.ex.get(fr.cur, fr.ghost("RS")) + " " + ref + ")"
}

func (fr *Frame) setGhostAt(g, ref, val string) {
	ex := fr.ex
	gv := fr.ghost(g)
	ex.set(fr.cur, gv, "(store "+ex.get(fr.cur, gv)+" "+ref+" "+val+")")
}

func (fr *Frame) setStream(ref, val string) { fr.setGhostAt("RS", ref, val) }

func (fr *Frame) bumpEpoch(ref string) {
	re := "(select " + fr.ex.get(fr.cur, fr.ghost("RE")) + " " + ref + ")"
	fr.setGhostAt("RE", ref, "(+ "+re+" 1)")
}

// readerRef: the reference of the reader object inside an io.Reader interface value ("" if unknown).
func readerRef(v *Val) string {
	if v.S.K == KRef {
		return v.T
	}
	if v.S.K == KAny {
		if len(v.Elems) == 1 && v.Elems[0] != nil && v.Elems[0].S.K == KRef {
			return v.Elems[0].T
		}
		return "(refOf " + v.T + ")"
	}
	return ""
}

// newBufioReader: a buffered reader delivers the bytes of its source. For an in-memory source (bytes.Buffer,
// strings.Reader) these are the source's remaining bytes; for any other source (a network connection) they
// are all the bytes the source will ever deliver - fixed but unknown.
func (fr *Frame) newBufioReader(ins ssa.Instruction, src *Val) *Val {
	ex := fr.ex
	r := ex.alloc(fr.cur, "bufreader")
	inMem := false
	// the stream model identifies the reader's bytes with the bytes of its source (a connection, an in-memory
	// buffer). A reader type of the package under verification in between can drop, add or reorder bytes in a
	// way that depends on how they arrive: its Read is not modelled, so the identification is an obligation.
	if src.Dyn != nil {
		t := src.Dyn
		if pt, ok := t.(*types.Pointer); ok {
			t = pt.Elem()
		}
		if n, ok := t.(*types.Named); ok && n.Obj().Pkg() != nil && ex.pkg != nil && n.Obj().Pkg() == ex.pkg.Pkg {
			ex.vc.oblige("stream-source", ex.oblName(fr.key+"/stream-source@"+n.Obj().Name()), fr.curReach, "false",
				"the buffered reader is built over "+src.Dyn.String()+", a reader of this package whose Read is not under contract: the bytes the decoder sees are no longer known to be the connection's bytes in order", ex.posOf(ins.Pos()), nil)
		}
	}
	if src.Dyn != nil {
		switch src.Dyn.String() {
		case "*bytes.Buffer", "*strings.Reader":
			inMem = true
		}
	}
	if src.S.K == KRef && (src.S.Name == "bytes_Buffer" || src.S.Name == "strings_Reader") {
		inMem = true
	}
	if inMem {
		fr.setStream(r, fr.stream(readerRef(src)))
	} else {
		fr.setStream(r, ex.vc.fresh("netstream", SString))
	}
	fr.setGhostAt("RU", r, "\"\"")
	fr.setGhostAt("RE", r, "0")
	return &Val{T: r, S: SRef("bufio_Reader")}
}

// readLine models (*bufio.Reader).ReadLine on the stream s of reader rd:
//   - error (always when the stream is empty): nothing is consumed;
//   - a complete line: the bytes up to the first "\n" with the line ending ("\n" or "\r\n") dropped, isPrefix false;
//   - no "\n" left: the rest of the stream as it is, isPrefix false;
//   - a fragment (line longer than the buffer, whatever its size): a non-empty prefix of the line that does not
//     end in "\r" and stops short of the "\n", isPrefix true.
//
// The returned slice aliases the reader's buffer until the next read (Borrow).
func (fr *Frame) readLine(rdv *Val) *Val {
	ex := fr.ex
	vc := ex.vc
	rd := rdv.T
	cur := vc.define("rlstream", SString, fr.stream(rd))
	errv := fr.havocVal("rlerr", SAny)
	ok := eq(errv.T, "anyNil")
	vc.assume(imp(eq(cur, "\"\""), not(ok)))
	isPrefix := vc.fresh("rlprefix", SBool)
	flen := vc.fresh("rlfrag", SInt)
	frag := vc.define("rlfragment", SString, "(str.substr "+cur+" 0 "+flen+")")
	fragRest := vc.define("rlfragrest", SString, "(str.substr "+cur+" "+flen+" (str.len "+cur+"))")
	// a fragment: non-empty, no line feed, does not end in a carriage return, stops short of the line feed;
	// splitting it off does not change what the line is (lemma C11_line_concat, proved from the definitions)
	vc.assume(imp(and(ok, isPrefix), and("(> "+flen+" 0)", "(<= "+flen+" (str.len "+cur+"))",
		not("(str.contains "+frag+" "+smtString("\n")+")"), not("(str.suffixof "+smtString("\r")+" "+frag+")"),
		eq(cur, "(str.++ "+frag+" "+fragRest+")"),
		eq("(lineOf "+cur+")", "(str.++ "+frag+" (lineOf "+fragRest+"))"),
		eq("(afterLine "+cur+")", "(afterLine "+fragRest+")"))))
	line := vc.define("rlline", SString, ite(not(ok), "\"\"", ite(isPrefix, frag, "(lineOf "+cur+")")))
	rest := ite(not(ok), cur, ite(isPrefix, fragRest, "(afterLine "+cur+")"))
	fr.setStream(rd, rest)
	fr.setGhostAt("RU", rd, "\"\"")
	fr.bumpEpoch(rd)
	re := "(select " + ex.get(fr.cur, fr.ghost("RE")) + " " + rd + ")"
	lv := &Val{T: line, S: SString, Borrow: &Borrow{Active: ok, Reader: rd, Epoch: vc.define("rlepoch", SInt, re)}}
	return tuple(lv, &Val{T: and(ok, isPrefix), S: SBool}, errv)
}

// resolveAddr models net.Resolve{UDP,TCP}Addr: a fresh address object or an error; the printed form of a
// socket address always resolves.
func (fr *Frame) resolveAddr(s *Val, sortName string) *Val {
	ex := fr.ex
	errv := fr.havocVal("resolveerr", SAny)
	r := ex.alloc(fr.cur, "addr")
	ex.vc.assume(imp("(isSockAddr "+s.T+")", eq(errv.T, "anyNil")))
	v := ex.vc.define("resolved", SRef(sortName), ite(eq(errv.T, "anyNil"), r, "0"))
	return tuple(&Val{T: v, S: SRef(sortName)}, errv)
}

// dial models net.Dial / net.DialTCP: a fresh connection or an error; the outcome is unconstrained.
func (fr *Frame) dial(ins ssa.Instruction, asIface bool) *Val {
	ex := fr.ex
	vc := ex.vc
	errv := fr.havocVal("dialerr", SAny)
	r := ex.alloc(fr.cur, "conn")
	id := ex.typeIDByName("*net.TCPConn")
	anyConn := fmt.Sprintf("(mkAny %d %s \"\")", id, r)
	gv := fr.ghost("dials")
	ex.set(fr.cur, gv, sqApp(ex.get(fr.cur, gv), sqUnit(ite(eq(errv.T, "anyNil"), anyConn, "anyNil"), SAny), SAny))
	gk := fr.ghost("dialok")
	ex.set(fr.cur, gk, ite(eq(errv.T, "anyNil"), sqApp(ex.get(fr.cur, gk), sqUnit(anyConn, SAny), SAny), ex.get(fr.cur, gk)))
	if asIface {
		c := vc.define("dialconn", SAny, ite(eq(errv.T, "anyNil"), anyConn, "anyNil"))
		return tuple(&Val{T: c, S: SAny}, errv)
	}
	c := vc.define("dialconn", SRef("net_TCPConn"), ite(eq(errv.T, "anyNil"), r, "0"))
	return tuple(&Val{T: c, S: SRef("net_TCPConn")}, errv)
}
