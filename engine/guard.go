package main

import (
	"fmt"
	"go/types"
	"sort"
	"strings"

	"golang.org/x/tools/go/callgraph"
	"golang.org/x/tools/go/callgraph/cha"
	"golang.org/x/tools/go/ssa"
)

// DisciplineGuards generates the structural obligations of the synchronisation discipline (C09):
//
//   - every field of the listed structs has a declared discipline (guarded / confined / immutable /
//     atomicfield / unshared);
//   - confined T.f: r1, r2: every function that reads or writes f through an object it did not allocate
//     itself runs only on goroutines started at r1, r2 (reachability in the CHA call graph, `go` edges cut);
//   - immutable T.f: f is stored only through objects the storing function allocated itself;
//   - atomicfield T.f: the address of f is only ever passed to sync/atomic functions.
//
// The path-sensitive part (guarded T.f: the object's mutex is held at the access) is generated with the
// ordinary verification conditions in lock-check mode (guardCheck).
func (d *Driver) DisciplineGuards(structs []string) *FuncVC {
	ex := d.newExec(nil, "discipline/guards", false)
	vc := ex.vc
	fvc := &FuncVC{Key: "discipline/guards", VC: vc}
	fail := func(kind, name, why, pos string) {
		o := vc.oblige(kind, name, "true", "false", why, pos, nil)
		o.Decided = "sat"
	}
	pass := func(kind, name, why, pos string) {
		o := vc.oblige(kind, name, "true", "true", why, pos, nil)
		o.Decided = "unsat"
	}
	// 1. completeness
	for _, sn := range structs {
		si := d.w.structs[sn]
		if si == nil {
			fail("guard-decl", "guards/declared@"+sn, "struct "+sn+" not found", "")
			continue
		}
		for _, f := range si.Fields {
			if f.Name == "Mutex" || f.Name == "RWMutex" {
				continue
			}
			name := "guards/declared@" + sn + "." + f.Name
			if d.cs.Guards[sn+"."+f.Name] == nil {
				fail("guard-decl", name, "field of a shared structure without a declared synchronisation discipline", "")
			} else {
				pass("guard-decl", name, "discipline declared: "+d.cs.Guards[sn+"."+f.Name].Kind, "")
			}
		}
	}
	// 1b. bufferedchan T.f: every channel stored into the field is created by make(chan X, n) with a constant n >= 1
	// (the channel is sent to while a mutex is held: an unbuffered channel would make the sender wait, under the
	// lock, for a receiver that may need the same lock)
	for _, gd := range d.cs.Buffered {
		found := false
		for k, fn := range d.fns {
			if strings.HasPrefix(k, "init@") || strings.HasSuffix(prog_file(d, fn), "_test.go") {
				continue
			}
			for _, b := range fn.Blocks {
				for _, ins := range b.Instrs {
					st, ok := ins.(*ssa.Store)
					if !ok {
						continue
					}
					fa, ok := st.Addr.(*ssa.FieldAddr)
					if !ok {
						continue
					}
					pt, ok := fa.X.Type().Underlying().(*types.Pointer)
					if !ok {
						continue
					}
					stt, ok := pt.Elem().Underlying().(*types.Struct)
					if !ok || d.w.typeName(pt.Elem())+"."+stt.Field(fa.Field).Name() != gd.Field {
						continue
					}
					found = true
					name := fmt.Sprintf("guards/buffered@%s in %s", gd.Field, k)
					pos := d.prog.Fset.Position(st.Pos()).String()
					mc, isMake := st.Val.(*ssa.MakeChan)
					if !isMake {
						fail("guard-buffered", name, gd.Field+" must hold a channel created with a positive constant capacity, but a value of unknown origin is stored", pos)
						continue
					}
					if c, isConst := mc.Size.(*ssa.Const); isConst && c.Int64() >= 1 {
						pass("guard-buffered", name, fmt.Sprintf("created with capacity %d", c.Int64()), pos)
					} else {
						fail("guard-buffered", name, gd.Field+" is sent to while a mutex is held and must be buffered, but it is created unbuffered or with a capacity that is not a positive constant", pos)
					}
				}
			}
		}
		if !found {
			fail("guard-buffered", "guards/buffered@"+gd.Field, "no creation site found for "+gd.Field, "")
		}
	}
	// 2. call graph and goroutine roots
	cg := cha.CallGraph(d.prog)
	roots := map[*ssa.Function]bool{}
	for _, fn := range d.fns {
		if strings.HasSuffix(prog_file(d, fn), "_test.go") {
			continue
		}
		for _, b := range fn.Blocks {
			for _, ins := range b.Instrs {
				if g, ok := ins.(*ssa.Go); ok {
					if callee := g.Call.StaticCallee(); callee != nil {
						roots[callee] = true
					} else if mc, ok := g.Call.Value.(*ssa.MakeClosure); ok {
						roots[mc.Fn.(*ssa.Function)] = true
					} else {
						// go through an interface or function value: every possible callee is a root
						if n := cg.Nodes[fn]; n != nil {
							for _, e := range n.Out {
								if e.Site == ins {
									roots[e.Callee.Func] = true
								}
							}
						}
					}
				}
			}
		}
	}
	if mainFn := d.pkg.Func("main"); mainFn != nil {
		roots[mainFn] = true
	}
	// reach[R] = functions that can run on a goroutine started at R
	reachOf := map[*ssa.Function]map[*ssa.Function]bool{}
	for r := range roots {
		seen := map[*ssa.Function]bool{r: true}
		work := []*ssa.Function{r}
		for len(work) > 0 {
			f := work[len(work)-1]
			work = work[:len(work)-1]
			n := cg.Nodes[f]
			if n == nil {
				continue
			}
			for _, e := range n.Out {
				if _, isGo := e.Site.(*ssa.Go); isGo {
					continue
				}
				c := e.Callee.Func
				if c == nil || seen[c] || c.Pkg != d.pkg {
					continue
				}
				seen[c] = true
				work = append(work, c)
			}
			// package functions whose value is taken here (callbacks handed to libraries such as the command-line
			// framework, method values): they may be called on this goroutine
			for _, b := range f.Blocks {
				for _, ins := range b.Instrs {
					if _, isGo := ins.(*ssa.Go); isGo {
						continue
					}
					var ops []*ssa.Value
					for _, op := range ins.Operands(ops) {
						if op == nil || *op == nil {
							continue
						}
						var tf *ssa.Function
						switch x := (*op).(type) {
						case *ssa.Function:
							tf = x
						case *ssa.MakeClosure:
							tf, _ = x.Fn.(*ssa.Function)
						}
						if ci, ok := ins.(ssa.CallInstruction); ok && tf != nil && ci.Common().Value == *op {
							continue // an ordinary static call: already an edge of the graph
						}
						if tf != nil && tf.Pkg == d.pkg && !seen[tf] && !roots[tf] {
							seen[tf] = true
							work = append(work, tf)
						}
					}
				}
			}
			for _, af := range f.AnonFuncs {
				// a closure created here and called later on this goroutine (conservative: unless started with go)
				if !seen[af] && !roots[af] {
					seen[af] = true
					work = append(work, af)
				}
			}
		}
		reachOf[r] = seen
	}
	rootsOf := func(f *ssa.Function) []string {
		var rs []string
		for r, seen := range reachOf {
			if seen[f] {
				rs = append(rs, r.RelString(d.pkg.Pkg))
			}
		}
		sort.Strings(rs)
		return rs
	}
	// 3. accesses
	keys := []string{}
	for k := range d.fns {
		keys = append(keys, k)
	}
	sort.Strings(keys)
	for _, k := range keys {
		fn := d.fns[k]
		if strings.HasPrefix(k, "init@") || strings.HasSuffix(prog_file(d, fn), "_test.go") {
			continue // alias of an init#N function; test code
		}
		seenOb := map[string]bool{}
		for _, b := range fn.Blocks {
			for _, ins := range b.Instrs {
				fa, ok := ins.(*ssa.FieldAddr)
				if !ok {
					continue
				}
				pt, ok := fa.X.Type().Underlying().(*types.Pointer)
				if !ok {
					continue
				}
				stt, ok := pt.Elem().Underlying().(*types.Struct)
				if !ok {
					continue
				}
				fname := d.w.typeName(pt.Elem()) + "." + stt.Field(fa.Field).Name()
				gd := d.cs.Guards[fname]
				if gd == nil {
					continue
				}
				fresh := isLocalAlloc(fa.X)
				stores, loads, escapes, atomics := classifyUses(fa)
				pos := d.prog.Fset.Position(fa.Pos()).String()
				switch gd.Kind {
				case "confined":
					if fresh {
						continue
					}
					name := fmt.Sprintf("guards/confined@%s in %s", fname, k)
					if seenOb[name] {
						continue
					}
					seenOb[name] = true
					rs := rootsOf(fn)
					bad := []string{}
					for _, r := range rs {
						if !contains(gd.Roots, r) {
							bad = append(bad, r)
						}
					}
					if len(bad) > 0 {
						fail("guard-confined", name, fmt.Sprintf("%s is confined to %v but %s also runs on goroutines started at %v", fname, gd.Roots, k, bad), pos)
					} else {
						pass("guard-confined", name, fmt.Sprintf("%s runs only on %v", k, rs), pos)
					}
				case "immutable":
					if stores == 0 && escapes == 0 {
						continue
					}
					name := fmt.Sprintf("guards/immutable@%s in %s", fname, k)
					if seenOb[name] {
						continue
					}
					seenOb[name] = true
					if fresh {
						pass("guard-immutable", name, "written through an object allocated by the same function", pos)
					} else {
						fail("guard-immutable", name, fname+" is declared immutable but is written (or its address escapes) through an object the function did not allocate", pos)
					}
				case "atomicfield":
					name := fmt.Sprintf("guards/atomic@%s in %s", fname, k)
					if seenOb[name] {
						continue
					}
					seenOb[name] = true
					if (loads > 0 || stores > 0 || escapes > atomics) && !fresh {
						fail("guard-atomic", name, fname+" is declared atomic but is accessed other than through sync/atomic", pos)
					} else {
						pass("guard-atomic", name, "accessed through sync/atomic only", pos)
					}
				}
			}
		}
	}
	return fvc
}

// isLocalAlloc: v is (a view of) an object allocated by the enclosing function.
func isLocalAlloc(v ssa.Value) bool {
	switch x := v.(type) {
	case *ssa.Alloc:
		return true
	case *ssa.FieldAddr:
		return isLocalAlloc(x.X)
	case *ssa.ChangeType:
		return isLocalAlloc(x.X)
	}
	return false
}

// classifyUses counts what is done with a field address: stores through it, loads through it, other uses
// (escapes), and among those the calls into sync/atomic.
func classifyUses(fa *ssa.FieldAddr) (stores, loads, escapes, atomics int) {
	if fa.Referrers() == nil {
		return
	}
	for _, r := range *fa.Referrers() {
		switch x := r.(type) {
		case *ssa.Store:
			if x.Addr == fa {
				stores++
			} else {
				escapes++
			}
		case *ssa.UnOp:
			loads++
		case *ssa.DebugRef:
		case ssa.CallInstruction:
			escapes++
			if f := x.Common().StaticCallee(); f != nil && f.Pkg != nil && f.Pkg.Pkg.Path() == "sync/atomic" {
				atomics++
			}
		case *ssa.FieldAddr:
			// nested struct field: treated as an escape of the outer field's address only if written
			s2, l2, e2, a2 := classifyUses(x)
			stores, loads, escapes, atomics = stores+s2, loads+l2, escapes+e2, atomics+a2
		default:
			escapes++
		}
	}
	return
}

var _ = callgraph.CalleesOf

// accessesGuarded: does fn read or write a field declared "guarded" through an object it did not allocate,
// or carry a "holds" clause?
func (d *Driver) accessesGuarded(key string, fn *ssa.Function) bool {
	if c := d.cs.Funcs[key]; c != nil && len(c.Holds) > 0 {
		return true
	}
	for _, b := range fn.Blocks {
		for _, ins := range b.Instrs {
			fa, ok := ins.(*ssa.FieldAddr)
			if !ok {
				continue
			}
			pt, ok := fa.X.Type().Underlying().(*types.Pointer)
			if !ok {
				continue
			}
			stt, ok := pt.Elem().Underlying().(*types.Struct)
			if !ok {
				continue
			}
			gd := d.cs.Guards[d.w.typeName(pt.Elem())+"."+stt.Field(fa.Field).Name()]
			if gd != nil && gd.Kind == "guarded" && !isLocalAlloc(fa.X) {
				return true
			}
		}
	}
	return false
}
