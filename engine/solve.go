package main

import (
	"bytes"
	"context"
	"fmt"
	"os"
	"os/exec"
	"path/filepath"
	"strings"
	"sync"
	"time"
)

type SolveResult struct {
	Status  string // "unsat","sat","unknown"
	Solver  string
	Ms      int64
	Model   string
	Raw     string
	PerSolv map[string]string
}

type SolverSpec struct {
	Name string
	Cmd  func(file string, timeoutMs int) []string
}

var solvers = []SolverSpec{
	{"z3-4.8.12", func(f string, ms int) []string {
		return []string{"z3", fmt.Sprintf("-t:%d", ms), fmt.Sprintf("-T:%d", ms/1000+2), f}
	}},
	{"z3-5.1.0", func(f string, ms int) []string {
		return []string{"z3-new", fmt.Sprintf("-t:%d", ms), fmt.Sprintf("-T:%d", ms/1000+2), f}
	}},
	{"cvc5-1.0", func(f string, ms int) []string {
		return []string{"cvc5", fmt.Sprintf("--tlimit=%d", ms), "--strings-exp", "--produce-models", f}
	}},
}

var procSem = make(chan struct{}, 16)
var solverTime = map[string]float64{}
var solverWins = map[string]int{}
var solverMu sync.Mutex

// runQuery races the installed solvers on one SMT-LIB text.
func runQuery(dir, name, text string, timeoutMs int) SolveResult {
	file := filepath.Join(dir, sanitize(name)+".smt2")
	if len(file) > 200 {
		file = filepath.Join(dir, fmt.Sprintf("q%x.smt2", hashStr(name)))
	}
	os.WriteFile(file, []byte(text), 0644)
	ctx, cancel := context.WithCancel(context.Background())
	defer cancel()
	type one struct {
		solver string
		status string
		out    string
		ms     int64
	}
	ch := make(chan one, len(solvers))
	// z3 4.8.12 is unsound on sequences whose elements are datatypes when quantified axioms are present
	// (it answers unsat on satisfiable formulas; minimal reproduction in DESIGN.md): it is not consulted
	// for such queries.
	seqOfData := usesNativeSeq(text)
	active := 0
	for _, s := range solvers {
		if seqOfData && s.Name == "z3-4.8.12" {
			continue
		}
		active++
	}
	for _, s := range solvers {
		s := s
		if seqOfData && s.Name == "z3-4.8.12" {
			continue
		}
		go func() {
			procSem <- struct{}{}
			defer func() { <-procSem }()
			if ctx.Err() != nil {
				ch <- one{s.Name, "cancelled", "", 0}
				return
			}
			args := s.Cmd(file, timeoutMs)
			cmd := exec.CommandContext(ctx, args[0], args[1:]...)
			var out bytes.Buffer
			cmd.Stdout = &out
			cmd.Stderr = &out
			t0 := time.Now()
			cmd.Run()
			ms := time.Since(t0).Milliseconds()
			solverMu.Lock()
			solverTime[s.Name] += float64(ms) / 1000
			solverMu.Unlock()
			o := out.String()
			first := strings.TrimSpace(strings.SplitN(o, "\n", 2)[0])
			st := "unknown"
			switch first {
			case "unsat":
				st = "unsat"
			case "sat":
				st = "sat"
			}
			if strings.HasPrefix(first, "(error") {
				st = "error"
			}
			if ctx.Err() != nil && st == "unknown" {
				st = "cancelled"
			}
			ch <- one{s.Name, st, o, ms}
		}()
	}
	res := SolveResult{Status: "unknown", PerSolv: map[string]string{}}
	var sat, unsat *one
	nerr := 0
	for i := 0; i < active; i++ {
		r := <-ch
		res.PerSolv[r.solver] = fmt.Sprintf("%s (%d ms)", r.status, r.ms)
		rr := r
		if r.status == "unsat" && unsat == nil {
			unsat = &rr
			cancel()
		}
		if r.status == "sat" && sat == nil {
			sat = &rr
			cancel()
		}
		if r.status == "unknown" || r.status == "error" {
			res.Raw += "[" + r.solver + "] " + firstLines(r.out, 3) + "\n"
		}
		if r.status == "error" {
			nerr++
		}
	}
	if nerr == active {
		res.Status = "error"
	}
	switch {
	case sat != nil && unsat != nil:
		res.Status = "conflict"
		res.Raw = "solver disagreement: " + sat.solver + "=sat, " + unsat.solver + "=unsat"
	case unsat != nil:
		res.Status, res.Solver, res.Ms = "unsat", unsat.solver, unsat.ms
	case sat != nil:
		res.Status, res.Solver, res.Ms, res.Model = "sat", sat.solver, sat.ms, sat.out
	}
	solverMu.Lock()
	if res.Solver != "" {
		solverWins[res.Solver]++
	}
	solverMu.Unlock()
	return res
}

func firstLines(s string, n int) string {
	lines := strings.Split(s, "\n")
	if len(lines) > n {
		lines = lines[:n]
	}
	return strings.Join(lines, " | ")
}

func hashStr(s string) uint32 {
	var h uint32 = 2166136261
	for i := 0; i < len(s); i++ {
		h ^= uint32(s[i])
		h *= 16777619
	}
	return h
}

// usesNativeSeq: does the query (comments aside) mention the SMT sequence theory?
func usesNativeSeq(text string) bool {
	for _, l := range strings.Split(text, "\n") {
		if strings.HasPrefix(l, ";") {
			continue
		}
		if strings.Contains(l, "(Seq ") {
			return true
		}
	}
	return false
}
