package main

import (
	"encoding/json"
	"flag"
	"fmt"
	"go/types"
	"golang.org/x/tools/go/ssa"
	"os"
	"path/filepath"
	"regexp"
	"sort"
	"strconv"
	"strings"
	"time"
)

type KnownFinding struct {
	Property   string `json:"property"`
	Obligation string `json:"obligation"`
	What       string `json:"what"`
	Status     string `json:"status"` // "open" or "fixed"
	Commit     string `json:"commit,omitempty"`
	Witness    string `json:"witness,omitempty"`
}

var safetyKinds = map[string]bool{"nil-deref": true, "nil-arg": true, "nil-elem": true, "index": true, "slice-bounds": true,
	"type-assert": true, "div-zero": true, "nil-map-write": true, "make-len": true, "alloc-bounded": true, "panic": true,
	"boxed-nil": true, "nil-capture": true, "alias": true, "borrow": true}

type PropConfig struct {
	ID             string   `json:"id"`
	Safety         bool     `json:"safety"`
	LockCheck      bool     `json:"lock_check"`
	GuardStructs   []string `json:"guard_structs"`
	GuardAccessors bool     `json:"guard_accessors"` // verify (lock-check mode) every function that accesses a guarded field
	ExtraFuncs     []string `json:"extra_functions"`
	Disciplines    []string `json:"disciplines"`
	ClosureOf      []string `json:"closure_of"` // add the package-local call-graph closure of these roots
	Kinds          []string `json:"kinds"`      // keep only obligations of these kinds (plus vacuity)
	Exclude        []string `json:"exclude_functions"`
	NotDecided     []string `json:"not_decided"`
	Assumptions    []string `json:"assumptions"`
	TimeoutMs      int      `json:"timeout_ms"`
}

type EvObl struct {
	Name   string `json:"name"`
	Kind   string `json:"kind"`
	Status string `json:"status"`
	Solver string `json:"solver"`
	Ms     int64  `json:"ms"`
	Src    string `json:"src,omitempty"`
	Pos    string `json:"pos,omitempty"`
}

func cmdCheck(args []string) {
	fs := flag.NewFlagSet("check", flag.ExitOnError)
	repo := fs.String("repo", "/repo", "")
	verif := fs.String("verif", "/verif", "")
	tier := fs.String("tier", "quick", "")
	freeze := fs.Bool("freeze", false, "rewrite the expected-obligation list from this run")
	keep := fs.String("keep", "", "keep SMT files in this directory")
	noEvidence := fs.Bool("no-evidence", false, "")
	fs.Parse(args)
	if fs.NArg() != 1 {
		fmt.Println("usage: govc check [flags] <property-id>")
		os.Exit(2)
	}
	id := fs.Arg(0)
	if t := os.Getenv("VERIF_TIER"); t != "" && *tier == "" {
		*tier = t
	}
	seed := 0
	if s := os.Getenv("VERIF_SEED"); s != "" {
		seed, _ = strconv.Atoi(s)
	}
	t0 := time.Now()
	code := runCheck(id, *repo, *verif, *tier, seed, *freeze, *keep, !*noEvidence, t0)
	os.Exit(code)
}

func runCheck(id, repo, verif, tier string, seed int, freeze bool, keep string, writeEv bool, t0 time.Time) int {
	specDir := filepath.Join(verif, "spec")
	d, err := LoadDriver(repo, specDir)
	if err != nil {
		fmt.Println("ENGINE-ERROR: cannot load repository or contracts:", err)
		// a tree that does not load cannot be verified: report as a violation of the named property
		return failAll(id, verif, tier, seed, "load", err.Error(), writeEv, t0)
	}
	cfg := PropConfig{ID: id}
	if b, err := os.ReadFile(filepath.Join(specDir, "props", id+".json")); err == nil {
		if err := json.Unmarshal(b, &cfg); err != nil {
			fmt.Println("ENGINE-ERROR: bad property config:", err)
			return 2
		}
	}
	timeout := 25000
	if tier == "thorough" {
		timeout = 90000
	}
	if cfg.TimeoutMs > 0 && tier != "thorough" {
		timeout = cfg.TimeoutMs
	}
	// functions under contract for this property
	keys := []string{}
	trusted := []string{}
	for k, c := range d.cs.Funcs {
		has := false
		for _, p := range c.Props {
			if p == id {
				has = true
			}
		}
		if !has {
			continue
		}
		if c.Trusted || c.Iface || strings.HasPrefix(k, "lib:") || strings.HasPrefix(k, "callback ") {
			trusted = append(trusted, k+" ("+c.Reason+")")
			continue
		}
		keys = append(keys, k)
	}
	keys = append(keys, cfg.ExtraFuncs...)
	if len(cfg.ClosureOf) > 0 {
		have := map[string]bool{}
		for _, k := range keys {
			have[k] = true
		}
		for _, k := range closureOf(d, cfg.ClosureOf) {
			if !have[k] && !contains(cfg.Exclude, k) {
				keys = append(keys, k)
			}
		}
	}
	if cfg.GuardAccessors {
		inKeys := map[string]bool{}
		for _, k := range keys {
			inKeys[k] = true
		}
		for k, fn := range d.fns {
			if inKeys[k] || contains(cfg.Exclude, k) || strings.HasPrefix(k, "init@") || strings.HasSuffix(prog_file(d, fn), "_test.go") {
				continue
			}
			if d.accessesGuarded(k, fn) {
				keys = append(keys, k)
			}
		}
	}
	autoAdded := map[string]bool{}
	if cfg.Safety {
		// field invariants are sound only if every store in the package is checked: functions outside the
		// closure that write an invariant-carrying field are swept as well
		inKeys := map[string]bool{}
		for _, k := range keys {
			inKeys[k] = true
		}
		for k, fn := range d.fns {
			if inKeys[k] || contains(cfg.Exclude, k) {
				continue
			}
			if d.storesInvariantField(fn) {
				keys = append(keys, k)
				autoAdded[k] = true
			}
		}
	}
	sort.Strings(keys)
	dir := keep
	if dir == "" {
		dir, _ = os.MkdirTemp("", "govc-"+id)
		defer os.RemoveAll(dir)
	} else {
		os.MkdirAll(dir, 0755)
	}
	var fvcs []*FuncVC
	engineErrs := []string{}
	notes := map[string]bool{}
	for _, k := range keys {
		c := d.cs.Funcs[k]
		safety := cfg.Safety || (c != nil && c.Safety)
		f := d.GenVC(k, safety, cfg.LockCheck)
		if autoAdded[k] && f.VC != nil {
			// outside the closure: only its stores to invariant-carrying fields are of interest
			kept := []*Obl{}
			for _, o := range f.VC.obls {
				if o.Kind == "fieldinv" || o.Name == k+"/vacuity:requires-satisfiable" || o.Name == k+"/vacuity:exit-reachable" {
					kept = append(kept, o)
				}
			}
			f.VC.obls = kept
		}
		fvcs = append(fvcs, f)
		if f.Err != "" {
			engineErrs = append(engineErrs, k+": "+f.Err)
		}
		for _, u := range f.Unsup {
			engineErrs = append(engineErrs, k+": unsupported: "+u)
		}
		for _, n := range f.Notes {
			notes[n] = true
		}
	}
	for _, disc := range cfg.Disciplines {
		switch disc {
		case "header-name":
			fvcs = append(fvcs, d.DisciplineHeaderName())
		case "guards":
			fvcs = append(fvcs, d.DisciplineGuards(cfg.GuardStructs))
		case "lockorder":
			fvcs = append(fvcs, d.DisciplineLockOrder())
		case "frames":
			fvcs = append(fvcs, d.DisciplineFrames(id))
		default:
			engineErrs = append(engineErrs, "unknown discipline "+disc)
		}
	}
	if len(cfg.Kinds) > 0 {
		for _, f := range fvcs {
			if f.VC == nil {
				continue
			}
			kept := []*Obl{}
			for _, o := range f.VC.obls {
				if contains(cfg.Kinds, o.Kind) || o.Kind == "vacuity" {
					kept = append(kept, o)
				}
			}
			f.VC.obls = kept
		}
	}
	results := solveAll(d, fvcs, dir, timeout, true)
	// standalone lemma files
	lemmaFiles, _ := filepath.Glob(filepath.Join(specDir, "lemmas", id+"_*.smt2"))
	sort.Strings(lemmaFiles)
	for _, lf := range lemmaFiles {
		b, _ := os.ReadFile(lf)
		body := string(b)
		pre := d.preludeFor(body)
		pre = strings.Replace(pre, ";@@DATA@@\n", d.dataDecls(), 1)
		txt := "(set-option :produce-models true)\n(set-logic ALL)\n" + pre + body + "\n(check-sat)\n"
		name := "lemma/" + strings.TrimSuffix(filepath.Base(lf), ".smt2")
		ltmo := timeout
		if ltmo < 60000 {
			ltmo = 60000 // standalone lemmas are the solver-heavy part (string induction steps): they get a minute even in the quick tier
		}
		r := runQuery(dir, name, txt, ltmo)
		results = append(results, &oblResult{O: &Obl{Name: name, Kind: "lemma", Fn: "lemma", Src: firstLines(body, 2)}, R: r, Txt: txt})
	}
	// expected obligations
	expFile := filepath.Join(specDir, "expected", id+".txt")
	// obligation names are compared without their "#k" occurrence suffix, so that an edit which
	// changes how often a clause is instantiated (e.g. one more return path) is not a missing obligation
	base := func(n string) string {
		if i := strings.LastIndex(n, "#"); i > 0 {
			return n[:i]
		}
		return n
	}
	// safety obligations are generated from the code itself (one per operation, named after SSA registers):
	// they come and go with harmless edits, so they are not part of the frozen list - an operation that is no
	// longer in the code needs no proof. What is frozen for a safety sweep is the set of contract clauses.
	have := map[string]bool{}
	for _, r := range results {
		if strings.Contains(r.O.Name, "/vacuity:block-") || safetyKinds[r.O.Kind] || (cfg.Safety && r.O.Kind == "vacuity") {
			continue
		}
		have[base(r.O.Name)] = true
	}
	if freeze {
		names := []string{}
		for n := range have {
			names = append(names, n)
		}
		sort.Strings(names)
		os.MkdirAll(filepath.Dir(expFile), 0755)
		os.WriteFile(expFile, []byte(strings.Join(names, "\n")+"\n"), 0644)
	}
	missing := []string{}
	if b, err := os.ReadFile(expFile); err == nil {
		for _, n := range strings.Split(string(b), "\n") {
			n = strings.TrimSpace(n)
			if n != "" && !have[base(n)] {
				missing = append(missing, base(n))
			}
		}
	}
	// known findings
	var known []KnownFinding
	if b, err := os.ReadFile(filepath.Join(verif, "known_findings.json")); err == nil {
		json.Unmarshal(b, &known)
	}
	isKnown := func(name string) *KnownFinding {
		for i := range known {
			if known[i].Property == id && known[i].Obligation == name && known[i].Status == "open" {
				return &known[i]
			}
		}
		return nil
	}
	// blocks that are unreachable under the model (sequential semantics make some retry paths dead):
	// allowed up to the per-function count recorded at freeze time; more than that is a vacuity alarm
	deadFile := filepath.Join(specDir, "expected", "dead_blocks.json")
	deadAllowed := map[string]int{}
	if b, err := os.ReadFile(deadFile); err == nil {
		json.Unmarshal(b, &deadAllowed)
	}
	deadNow := map[string]int{}
	for _, r := range results {
		if r.O.Kind == "vacuity" && strings.Contains(r.O.Name, "/vacuity:block-") && r.R.Status == "unsat" {
			deadNow[r.O.Fn]++
		}
	}
	if freeze {
		for _, k := range keys {
			delete(deadAllowed, k)
		}
		for fn, n := range deadNow {
			deadAllowed[fn] = n
		}
		b, _ := json.MarshalIndent(deadAllowed, "", " ")
		os.WriteFile(deadFile, b, 0644)
	}
	deadSeen := map[string]int{}
	// report
	replayDir := filepath.Join(verif, "replays", id)
	violations := 0
	discharged := 0
	total := 0
	knownPrinted := []string{}
	conflicts := 0
	var evObls []EvObl
	samples := []interface{}{}
	for _, r := range results {
		total++
		ev := EvObl{Name: r.O.Name, Kind: r.O.Kind, Status: r.R.Status, Solver: r.R.Solver, Ms: r.R.Ms, Src: r.O.Src, Pos: r.O.Pos}
		if r.O.Expect == "sat" {
			ev.Status = "cover:" + r.R.Status
		}
		evObls = append(evObls, ev)
		if r.R.Status == "conflict" || r.R.Status == "error" {
			conflicts++
			fmt.Println("ENGINE-ERROR: query for", r.O.Name, "was rejected by every solver:", firstLines(r.R.Raw, 2))
		}
		if r.ok() {
			discharged++
			continue
		}
		if r.O.Kind == "vacuity" && strings.Contains(r.O.Name, "/vacuity:block-") {
			deadSeen[r.O.Fn]++
			if deadSeen[r.O.Fn] <= deadAllowed[r.O.Fn] {
				discharged++ // a block known to be dead under the sequential model
				continue
			}
		}
		if kf := isKnown(r.O.Name); kf != nil {
			fmt.Printf("KNOWN-FINDING: property=%s %s (%s)\n", id, kf.What, r.O.Name)
			knownPrinted = append(knownPrinted, r.O.Name)
			continue
		}
		violations++
		path := writeReplay(d, replayDir, id, r, repo)
		suffix := ""
		if !replayReproduced(path) {
			suffix = " no-failing-input-found"
		}
		fmt.Printf("VIOLATION property=%s replay=%s obligation=%s status=%s%s\n", id, path, r.O.Name, r.R.Status, suffix)
	}
	for _, m := range missing {
		violations++
		r := &oblResult{O: &Obl{Name: m, Kind: "missing", Src: "expected obligation was not generated from the current source (function, loop or contract clause disappeared)"}, R: SolveResult{Status: "missing"}}
		path := writeReplay(d, replayDir, id, r, repo)
		fmt.Printf("VIOLATION property=%s replay=%s obligation=%s status=missing no-failing-input-found\n", id, path, m)
	}
	for _, e := range engineErrs {
		violations++
		r := &oblResult{O: &Obl{Name: "engine/" + sanitize(e)[:min(60, len(sanitize(e)))], Kind: "undecidable", Src: e}, R: SolveResult{Status: "undecided"}}
		path := writeReplay(d, replayDir, id, r, repo)
		fmt.Printf("VIOLATION property=%s replay=%s obligation=%s status=undecided no-failing-input-found\n", id, path, r.O.Name)
		fmt.Println("  reason:", e)
	}
	// thorough tier: the replay drivers of the functions under check are run against the unchanged tree; none of the
	// recorded failure scenarios may reproduce (a bounded, concrete supplement - reported separately, never counted
	// among the discharged obligations)
	driversRun, driversClean := 0, 0
	if tier == "thorough" {
		var oblRe = regexp.MustCompile(`Contains\("\{\{\.Obligation\}\}", "([^"]+)"\)`)
		for _, k := range append(append([]string{}, keys...), "discipline/guards") {
			if k == "discipline/guards" && !contains(cfg.Disciplines, "guards") {
				continue
			}
			tb, err := os.ReadFile(filepath.Join(verif, "replay", sanitize(k)+".go.tmpl"))
			if err != nil {
				continue
			}
			variants := []string{k + "/self-check"}
			for _, m := range oblRe.FindAllStringSubmatch(string(tb), -1) {
				variants = append(variants, k+"/"+m[1])
			}
			for _, v := range variants {
				r := &oblResult{O: &Obl{Name: v, Kind: "replay-self-check", Fn: k, Src: "the failure scenario of this driver does not reproduce on the current tree"}, R: SolveResult{Status: "unknown"}}
				verdict, info := tryReplay(d, repo, r, nil)
				driversRun++
				if verdict == "reproduced" {
					violations++
					r.R.Raw = fmt.Sprint(info["output"])
					path := writeReplay(d, replayDir, id, r, repo)
					fmt.Printf("VIOLATION property=%s replay=%s obligation=replay-self-check/%s status=reproduced\n", id, path, v)
				} else {
					driversClean++
				}
			}
		}
	}
	// samples: a few obligations written out
	for i, ev := range evObls {
		if i%max(1, len(evObls)/8) == 0 && len(samples) < 10 {
			samples = append(samples, ev)
		}
	}
	wall := time.Since(t0).Seconds()
	fmt.Printf("property %s tier=%s: %d obligations over %d functions, %d discharged, %d known findings, %d violations, %.1fs\n",
		id, tier, total, len(keys), discharged, len(knownPrinted), violations, wall)
	if writeEv {
		level := "proof"
		if len(knownPrinted) > 0 || violations > 0 {
			level = "other"
		}
		assumptions := append([]string{}, cfg.Assumptions...)
		ns := []string{}
		inKeys := map[string]bool{}
		for _, k := range keys {
			inKeys[k] = true
		}
		where := contractHomes(d, specDir)
		for n := range notes {
			if strings.HasPrefix(n, "uses-contract\t") {
				// a callee contract was assumed at a call site of a function under check: say where (if anywhere) the
				// callee's own obligations are discharged
				k := strings.TrimPrefix(n, "uses-contract\t")
				if inKeys[k] {
					continue // discharged by this very check
				}
				c := d.cs.Funcs[k]
				switch {
				case c != nil && c.Trusted:
					n = "assumed contract (TRUSTED, body not checked against it anywhere): " + k + " - " + c.Reason
				case c != nil && c.Iface && strings.HasPrefix(k, "callback "):
					n = "assumed contract of a function-typed value (not proved for the functions passed in): " + k
				case c != nil && c.Iface:
					n = "assumed interface contract (implementations are not checked against it by this check): " + k + implsUnderContract(d, k)
				case len(where[k]) > 0:
					n = "callee contract assumed here, discharged by check(s) " + strings.Join(where[k], " ") + ": " + k
				default:
					n = "assumed contract (its own obligations are not discharged by any registered check): " + k
				}
			}
			ns = append(ns, n)
		}
		sort.Strings(ns)
		assumptions = append(assumptions, ns...)
		assumptions = append(assumptions,
			"machine integers are treated as mathematical integers (no overflow modelling)",
			"slices have value semantics: no two live slices share a backing array (A-alias)",
			"library functions behave as their models in engine/lib.go and spec/*.smt2 state; they do not panic",
			"the Go compiler, go/ssa construction and the SMT solvers are trusted")
		tb := []string{"govc VC generator (/verif/engine)", "go/ssa (x/tools v0.29.0)", "z3 4.8.12", "z3 5.1.0", "cvc5 1.0", "spec prelude /verif/spec/*.smt2 (library models, axioms)"}
		for _, t := range trusted {
			tb = append(tb, "assumed contract: "+t)
		}
		st := map[string]float64{}
		solverMu.Lock()
		for k, v := range solverTime {
			st[k] = v
		}
		wins := map[string]int{}
		for k, v := range solverWins {
			wins[k] = v
		}
		solverMu.Unlock()
		cov := map[string]interface{}{
			"obligations":              total,
			"discharged":               discharged,
			"checker_cmd":              fmt.Sprintf("/verif/bin/govc check --tier %s %s", tier, id),
			"trusted_base":             tb,
			"functions_under_contract": keys,
			"obligation_results":       evObls,
			"samples":                  samples,
			"solver_time_s":            st,
			"solver_wins":              wins,
			"known_findings":           knownPrinted,
			"not_decided":              cfg.NotDecided,
			"replay_drivers_run":       driversRun,
			"replay_drivers_clean":     driversClean,
			"missing_expected":         missing,
			"engine_errors":            engineErrs,
			"timeout_ms":               timeout,
			"explanation":              fmt.Sprintf("contract-based deductive verification: %d obligations generated from /repo's SSA for %d functions under contract; %d discharged by SMT (z3/cvc5 raced); %d known findings; %d violations", total, len(keys), discharged, len(knownPrinted), violations),
		}
		ev := map[string]interface{}{
			"property_id": id, "tier": tier, "seed": seed, "level": level, "coverage": cov,
			"assumptions": assumptions, "wall_s": wall, "violations": violations,
		}
		os.MkdirAll(filepath.Join(verif, "evidence"), 0755)
		b, _ := json.MarshalIndent(ev, "", " ")
		os.WriteFile(filepath.Join(verif, "evidence", id+".json"), b, 0644)
	}
	if conflicts > 0 {
		fmt.Println("ENGINE-ERROR: solver disagreement or malformed query on", conflicts, "queries")
		return 2
	}
	if violations > 0 {
		return 1
	}
	return 0
}

func failAll(id, verif, tier string, seed int, what, msg string, writeEv bool, t0 time.Time) int {
	replayDir := filepath.Join(verif, "replays", id)
	os.MkdirAll(replayDir, 0755)
	path := filepath.Join(replayDir, "load-error.json")
	b, _ := json.MarshalIndent(map[string]interface{}{"property": id, "obligation": "engine/" + what, "status": "undecided", "detail": msg}, "", " ")
	os.WriteFile(path, b, 0644)
	fmt.Printf("VIOLATION property=%s replay=%s obligation=engine/%s status=undecided no-failing-input-found\n", id, path, what)
	if writeEv {
		ev := map[string]interface{}{
			"property_id": id, "tier": tier, "seed": seed, "level": "other",
			"coverage": map[string]interface{}{"explanation": "repository could not be loaded: " + msg},
			"wall_s":   time.Since(t0).Seconds(), "violations": 1,
		}
		os.MkdirAll(filepath.Join(verif, "evidence"), 0755)
		eb, _ := json.MarshalIndent(ev, "", " ")
		os.WriteFile(filepath.Join(verif, "evidence", id+".json"), eb, 0644)
	}
	return 1
}

func replayReproduced(path string) bool {
	b, err := os.ReadFile(path)
	if err != nil {
		return false
	}
	var m map[string]interface{}
	json.Unmarshal(b, &m)
	v, _ := m["replay_verdict"].(string)
	return v == "reproduced"
}

func writeReplay(d *Driver, dir, id string, r *oblResult, repo string) string {
	os.MkdirAll(dir, 0755)
	name := sanitize(r.O.Name)
	if len(name) > 120 {
		name = name[:100] + fmt.Sprintf("_%x", hashStr(r.O.Name))
	}
	path := filepath.Join(dir, name+".json")
	m := map[string]interface{}{
		"property":      id,
		"obligation":    r.O.Name,
		"kind":          r.O.Kind,
		"function":      r.O.Fn,
		"clause":        r.O.Src,
		"position":      r.O.Pos,
		"status":        r.R.Status,
		"solver":        r.R.Solver,
		"per_solver":    r.R.PerSolv,
		"solver_output": firstLines(r.R.Model+r.R.Raw, 40),
	}
	if r.R.Status == "sat" && len(r.O.Syms) > 0 {
		m["model_inputs"] = parseGetValue(r.R.Model, r.O.Syms)
	}
	verdict, detail := tryReplay(d, repo, r, m)
	m["replay_verdict"] = verdict
	if detail != nil {
		m["replay"] = detail
	}
	if r.Txt != "" {
		qpath := filepath.Join(dir, name+".smt2")
		os.WriteFile(qpath, []byte(r.Txt), 0644)
		m["query_file"] = qpath
	}
	b, _ := json.MarshalIndent(m, "", " ")
	os.WriteFile(path, b, 0644)
	return path
}

// parseGetValue extracts the (term value) pairs printed after "sat".
func parseGetValue(out string, syms [][2]string) map[string]string {
	res := map[string]string{}
	idx := strings.Index(out, "\n")
	if idx < 0 {
		return res
	}
	sx, err := parseSexprs(out[idx+1:])
	if err != nil || len(sx) == 0 {
		return res
	}
	for _, pair := range sx[0].list {
		if len(pair.list) != 2 {
			continue
		}
		term := renderSexpr(pair.list[0])
		for _, s := range syms {
			if s[1] == term {
				res[s[0]] = renderSexpr(pair.list[1])
			}
		}
	}
	return res
}

func renderSexpr(s *sexpr) string {
	if s.atom != "" {
		return s.atom
	}
	parts := []string{}
	for _, x := range s.list {
		parts = append(parts, renderSexpr(x))
	}
	return "(" + strings.Join(parts, " ") + ")"
}

// storesInvariantField: does fn store to a struct field that carries a fieldinv / safetyinv clause?
func (d *Driver) storesInvariantField(fn *ssa.Function) bool {
	for _, b := range fn.Blocks {
		for _, ins := range b.Instrs {
			st, ok := ins.(*ssa.Store)
			if !ok {
				continue
			}
			fa, ok := st.Addr.(*ssa.FieldAddr)
			if !ok {
				continue
			}
			pt, ok := fa.X.Type().Underlying().(*types.Pointer)
			if !ok {
				continue
			}
			stt, ok := pt.Elem().Underlying().(*types.Struct)
			if !ok {
				continue
			}
			name := d.w.typeName(pt.Elem()) + "." + stt.Field(fa.Field).Name()
			if len(d.cs.FieldInvs[name]) > 0 {
				return true
			}
		}
	}
	return false
}

// contractHomes maps a function key to the properties whose check discharges that function's own obligations
// (contract `props` lists and the extra_functions of every property configuration).
func contractHomes(d *Driver, specDir string) map[string][]string {
	out := map[string][]string{}
	add := func(k, p string) {
		if !contains(out[k], p) {
			out[k] = append(out[k], p)
		}
	}
	for k, c := range d.cs.Funcs {
		if c.Trusted || c.Iface {
			continue
		}
		for _, p := range c.Props {
			add(k, p)
		}
	}
	files, _ := filepath.Glob(filepath.Join(specDir, "props", "*.json"))
	for _, f := range files {
		var pc PropConfig
		if b, err := os.ReadFile(f); err == nil && json.Unmarshal(b, &pc) == nil {
			id := pc.ID
			if id == "" {
				id = strings.TrimSuffix(filepath.Base(f), ".json")
			}
			for _, k := range pc.ExtraFuncs {
				if c := d.cs.Funcs[k]; c != nil && !c.Trusted && !c.Iface && !c.safetyOnly() {
					add(k, id)
				}
			}
		}
	}
	for k := range out {
		sort.Strings(out[k])
	}
	return out
}

// implsOf lists the package methods (with bodies) that implement interface method key ("Iface.Method").
func implsOf(d *Driver, key string) []string {
	i := strings.LastIndex(key, ".")
	if i < 0 {
		return nil
	}
	itName, meth := key[:i], key[i+1:]
	obj := d.pkg.Pkg.Scope().Lookup(itName)
	if obj == nil {
		return nil
	}
	iface, ok := obj.Type().Underlying().(*types.Interface)
	if !ok {
		return nil
	}
	out := []string{}
	for _, mem := range d.pkg.Members {
		tn, ok := mem.(*ssa.Type)
		if !ok {
			continue
		}
		if _, isI := tn.Type().Underlying().(*types.Interface); isI {
			continue
		}
		for _, t := range []types.Type{tn.Type(), types.NewPointer(tn.Type())} {
			if !types.Implements(t, iface) {
				continue
			}
			if sel := d.prog.MethodSets.MethodSet(t).Lookup(d.pkg.Pkg, meth); sel != nil {
				if fn := d.prog.MethodValue(sel); fn != nil && len(fn.Blocks) > 0 && fn.Synthetic == "" {
					k := fn.RelString(d.pkg.Pkg)
					if !contains(out, k) {
						out = append(out, k)
					}
				}
			}
			break
		}
	}
	sort.Strings(out)
	return out
}

// implsUnderContract says, for interface method key, which implementations carry a functional contract of their own.
func implsUnderContract(d *Driver, key string) string {
	with, without := []string{}, []string{}
	for _, k := range implsOf(d, key) {
		if c := d.cs.Funcs[k]; c != nil && !c.Trusted && !c.safetyOnly() {
			with = append(with, k)
		} else {
			without = append(without, k)
		}
	}
	return " (implementations with a functional contract of their own: " + strings.Join(with, ", ") + "; without: " + strings.Join(without, ", ") + ")"
}
