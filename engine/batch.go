package main

import (
	"bytes"
	"fmt"
	"os"
	"os/exec"
	"path/filepath"
	"strings"
	"time"
)

// batchPass discharges the obligations of one function in a single incremental solver run
// (push / assert / check-sat / pop at each obligation's position in the command stream). The formulas
// are exactly those of the per-obligation queries; what it saves is re-parsing the shared prefix once
// per obligation and per solver. Obligations it does not settle are raced individually afterwards.
func (d *Driver) batchPass(f *FuncVC, dir string, perQueryMs int) map[*Obl]SolveResult {
	vc := f.VC
	out := map[*Obl]SolveResult{}
	if vc == nil || len(vc.obls) < 4 {
		return out
	}
	byPrefix := map[int][]*Obl{}
	for _, o := range vc.obls {
		if o.Decided != "" {
			continue
		}
		byPrefix[o.Prefix] = append(byPrefix[o.Prefix], o)
	}
	var body strings.Builder
	idx := map[int]*Obl{}
	n := 0
	emit := func(p int) {
		for _, o := range byPrefix[p] {
			n++
			idx[n] = o
			body.WriteString("(push 1)\n(assert " + o.Reach + ")\n")
			if o.Expect != "sat" {
				body.WriteString("(assert (not " + o.Goal + "))\n")
				// proof obligations get more time than covers: 300 ms left borderline ones undecided on a loaded
				// machine, and some of those are slow as individual queries
				fmt.Fprintf(&body, "(set-option :timeout %d)\n", 4*perQueryMs)
			} else {
				fmt.Fprintf(&body, "(set-option :timeout %d)\n", perQueryMs)
			}
			fmt.Fprintf(&body, "(echo \"@@%d\")\n(check-sat)\n(pop 1)\n", n)
		}
	}
	for i, c := range vc.cmds {
		emit(i)
		body.WriteString(c)
		body.WriteString("\n")
	}
	emit(len(vc.cmds))
	bs := body.String()
	force := ""
	if c, ok := d.cs.Funcs[vc.fn]; ok {
		for _, u := range c.Uses {
			for _, ch := range d.chunks {
				if ch.name == u {
					force += " " + strings.Join(ch.triggers, " ")
				}
			}
		}
	}
	pre := d.preludeFor(bs + force)
	pre = strings.Replace(pre, ";@@DATA@@\n", d.dataDecls(), 1)
	txt := "(set-logic ALL)\n" + pre + "; ---- batch VC for " + vc.fn + "\n" + bs
	file := filepath.Join(dir, fmt.Sprintf("batch_%x.smt2", hashStr(vc.fn)))
	os.WriteFile(file, []byte(txt), 0644)
	total := 4*n*perQueryMs/1000 + 20
	if total > 240 {
		total = 240
	}
	procSem <- struct{}{}
	cmd := exec.Command("z3", fmt.Sprintf("-t:%d", perQueryMs), fmt.Sprintf("-T:%d", total), file)
	var ob bytes.Buffer
	cmd.Stdout = &ob
	cmd.Stderr = &ob
	t0 := time.Now()
	cmd.Run()
	<-procSem
	el := time.Since(t0)
	solverMu.Lock()
	solverTime["z3-4.8.12"] += el.Seconds()
	solverMu.Unlock()
	lines := strings.Split(ob.String(), "\n")
	for i := 0; i+1 < len(lines); i++ {
		l := strings.TrimSpace(strings.Trim(strings.TrimSpace(lines[i]), "\""))
		if !strings.HasPrefix(l, "@@") {
			continue
		}
		var k int
		fmt.Sscanf(l, "@@%d", &k)
		o := idx[k]
		if o == nil {
			continue
		}
		st := strings.TrimSpace(lines[i+1])
		switch st {
		case "unsat", "sat", "unknown":
			out[o] = SolveResult{Status: st, Solver: "z3-4.8.12", Ms: el.Milliseconds() / int64(n+1), PerSolv: map[string]string{"z3-4.8.12": st + " (incremental run)"}}
		}
	}
	if strings.Contains(ob.String(), "(error") {
		// a malformed script is an engine problem: settle nothing here, the individual queries will report it
		return map[*Obl]SolveResult{}
	}
	return out
}
