package main

import (
	"flag"
	"fmt"
	"go/types"
	"os"
	"sort"
	"strings"
	"sync"

	"golang.org/x/tools/go/ssa"
)

func main() {
	if len(os.Args) < 2 {
		fmt.Println("usage: govc vc|check|list ...")
		os.Exit(2)
	}
	switch os.Args[1] {
	case "vc":
		cmdVC(os.Args[2:])
	case "check":
		cmdCheck(os.Args[2:])
	case "list":
		cmdList(os.Args[2:])
	case "closure":
		d, err := LoadDriver("/repo", "/verif/spec")
		if err != nil {
			fmt.Println(err)
			os.Exit(2)
		}
		for _, k := range closureOf(d, os.Args[2:]) {
			fmt.Println(k)
		}
	default:
		fmt.Println("unknown command")
		os.Exit(2)
	}
}

func cmdList(args []string) {
	fs := flag.NewFlagSet("list", flag.ExitOnError)
	repo := fs.String("repo", "/repo", "")
	spec := fs.String("spec", "/verif/spec", "")
	fs.Parse(args)
	d, err := LoadDriver(*repo, *spec)
	if err != nil {
		fmt.Println("load error:", err)
		os.Exit(2)
	}
	keys := []string{}
	for k := range d.fns {
		keys = append(keys, k)
	}
	sort.Strings(keys)
	for _, k := range keys {
		mark := " "
		if _, ok := d.cs.Funcs[k]; ok {
			mark = "C"
		}
		fmt.Println(mark, k)
	}
}

type oblResult struct {
	O   *Obl
	R   SolveResult
	VC  *VC
	Txt string
}

var noBatch = os.Getenv("GOVC_NO_BATCH") != ""

// solveAll discharges every obligation of the given VCs in parallel.
func solveAll(d *Driver, fvcs []*FuncVC, dir string, timeoutMs int, keepText bool) []*oblResult {
	var out []*oblResult
	var mu sync.Mutex
	var wg sync.WaitGroup
	sem := make(chan struct{}, 8)
	// first pass: one incremental solver run per function
	settled := map[*Obl]SolveResult{}
	batchMs := 300 // vacuity covers; proof obligations get four times as long (batch.go)
	thorough := timeoutMs > 30000
	if thorough {
		batchMs = 1500
	}
	if !noBatch {
		var bwg sync.WaitGroup
		for _, f := range fvcs {
			if f.VC == nil {
				continue
			}
			f := f
			bwg.Add(1)
			go func() {
				defer bwg.Done()
				r := d.batchPass(f, dir, batchMs)
				mu.Lock()
				for o, sr := range r {
					settled[o] = sr
				}
				mu.Unlock()
			}()
		}
		bwg.Wait()
	}
	for _, f := range fvcs {
		if f.VC == nil {
			continue
		}
		for _, o := range f.VC.obls {
			o, f := o, f
			if o.Decided != "" {
				st := o.Decided
				if st == "sat" {
					st = "unknown" // a failed structural obligation: reported like an undischarged one, with its reason as clause text
				}
				out = append(out, &oblResult{O: o, R: SolveResult{Status: st, Solver: "structural analysis", PerSolv: map[string]string{"structural analysis": o.Decided}}, VC: f.VC, Txt: "; decided by the structural analysis, no SMT query\n; " + o.Src})
				continue
			}
			if sr, ok := settled[o]; ok {
				// settled: a proof (unsat) of a proof obligation, or a witness (sat) of a cover; anything else is
				// decided by the individual race below
				// (quick tier: a cover the incremental run leaves undecided stays undecided - "unknown" on a cover is
				// not a failure; a cover it refutes is always re-examined by the individual race)
				if (o.Expect != "sat" && sr.Status == "unsat") || (o.Expect == "sat" && (sr.Status == "sat" || sr.Status == "unknown" && !thorough)) {
					res := &oblResult{O: o, R: sr, VC: f.VC}
					if keepText {
						res.Txt = "; settled in the incremental run of " + f.VC.fn + "; individual query:\n" + d.QueryText(f.VC, o)
					}
					solverMu.Lock()
					solverWins[sr.Solver]++
					solverMu.Unlock()
					out = append(out, res)
					continue
				}
			}
			wg.Add(1)
			go func() {
				defer wg.Done()
				sem <- struct{}{}
				defer func() { <-sem }()
				txt := d.QueryText(f.VC, o)
				tmo := timeoutMs
				if o.Expect == "sat" && tmo > 3000 {
					tmo = 3000 // vacuity covers: a short budget is enough, "unknown" is not a failure
					if strings.Contains(o.Name, "/vacuity:block-") {
						tmo = 1500
					}
				}
				switch o.Kind {
				case "nil-deref", "nil-arg", "nil-elem", "index", "slice-bounds", "type-assert", "div-zero", "nil-map-write", "make-len", "alloc-bounded", "panic", "lock", "boxed-nil", "nil-capture":
					if tmo > 8000 {
						tmo = 8000 // safety obligations are local facts: they discharge at once or not at all
					}
				}
				r := runQuery(dir, o.Name, txt, tmo)
				if o.Expect != "sat" && r.Status == "unknown" && o.Kind != "guard-decl" && o.Kind != "guard-confined" && o.Kind != "guard-immutable" && o.Kind != "guard-atomic" {
					// undecided within the budget: one more attempt with twice the time before it is reported, so that a
					// loaded machine does not turn a slow proof into an alarm
					r2 := runQuery(dir, o.Name+"_retry", txt, 3*tmo)
					if r2.Status != "unknown" {
						r = r2
					}
				}
				res := &oblResult{O: o, R: r, VC: f.VC}
				if keepText {
					res.Txt = txt
				}
				mu.Lock()
				out = append(out, res)
				mu.Unlock()
			}()
		}
	}
	wg.Wait()
	sort.Slice(out, func(i, j int) bool { return out[i].O.Name < out[j].O.Name })
	return out
}

func (r *oblResult) ok() bool {
	if r.O.Expect == "sat" {
		return r.R.Status != "unsat" // vacuity: only a proven contradiction is a failure
	}
	return r.R.Status == "unsat"
}

func cmdVC(args []string) {
	fs := flag.NewFlagSet("vc", flag.ExitOnError)
	repo := fs.String("repo", "/repo", "")
	spec := fs.String("spec", "/verif/spec", "")
	safety := fs.Bool("safety", false, "")
	dump := fs.String("dump", "", "directory to keep SMT files")
	timeout := fs.Int("timeout", 10000, "ms")
	verbose := fs.Bool("v", false, "")
	fs.Parse(args)
	d, err := LoadDriver(*repo, *spec)
	if err != nil {
		fmt.Println("load error:", err)
		os.Exit(2)
	}
	dir := *dump
	if dir == "" {
		dir, _ = os.MkdirTemp("", "govc")
		defer os.RemoveAll(dir)
	} else {
		os.MkdirAll(dir, 0755)
	}
	var fvcs []*FuncVC
	for _, key := range fs.Args() {
		f := d.GenVC(key, *safety, false)
		fvcs = append(fvcs, f)
		if f.Err != "" {
			fmt.Println("ERROR", key, f.Err)
		}
		for _, u := range f.Unsup {
			fmt.Println("UNSUPPORTED", key, u)
		}
		if *verbose {
			for _, n := range f.Notes {
				fmt.Println("NOTE", n)
			}
		}
	}
	res := solveAll(d, fvcs, dir, *timeout, false)
	bad := 0
	for _, r := range res {
		st := "ok  "
		if !r.ok() {
			st = "FAIL"
			bad++
		}
		fmt.Printf("%s %-70s %s %s %dms\n", st, r.O.Name, r.R.Status, r.R.Solver, r.R.Ms)
		if !r.ok() {
			fmt.Println("     src:", r.O.Src, r.O.Pos)
			if r.R.Status == "sat" {
				fmt.Println("     model:", strings.ReplaceAll(firstLines(r.R.Model, 12), "\n", " "))
			} else {
				fmt.Println("     ", r.R.PerSolv, r.R.Raw)
			}
		}
	}
	fmt.Printf("%d obligations, %d failed\n", len(res), bad)
	if bad > 0 {
		os.Exit(1)
	}
}

// closureOf computes the package-local call-graph closure of the given roots (static calls, closures,
// and interface invokes resolved to every package method of that name implementing the interface).
// addressTaken: package functions and closures whose value is taken somewhere in the package (candidates for
// calls through function values).
func addressTaken(d *Driver) []*ssa.Function {
	set := map[*ssa.Function]bool{}
	for _, fn := range d.fns {
		for _, b := range fn.Blocks {
			for _, ins := range b.Instrs {
				var ops []*ssa.Value
				for _, op := range ins.Operands(ops) {
					if op == nil || *op == nil {
						continue
					}
					var tf *ssa.Function
					switch x := (*op).(type) {
					case *ssa.Function:
						tf = x
					case *ssa.MakeClosure:
						tf, _ = x.Fn.(*ssa.Function)
					}
					if tf == nil || tf.Pkg != d.pkg {
						continue
					}
					if ci, ok := ins.(ssa.CallInstruction); ok && ci.Common().Value == *op {
						if _, isClo := (*op).(*ssa.MakeClosure); !isClo {
							continue
						}
					}
					set[tf] = true
				}
			}
		}
	}
	var out []*ssa.Function
	for f := range set {
		out = append(out, f)
	}
	return out
}

func closureOf(d *Driver, roots []string) []string {
	seen := map[string]bool{}
	taken := addressTaken(d)
	var visit func(fn *ssa.Function)
	visit = func(fn *ssa.Function) {
		if fn == nil || fn.Pkg != d.pkg || len(fn.Blocks) == 0 {
			return
		}
		key := fn.RelString(d.pkg.Pkg)
		if seen[key] {
			return
		}
		seen[key] = true
		for _, b := range fn.Blocks {
			for _, ins := range b.Instrs {
				switch x := ins.(type) {
				case *ssa.MakeClosure:
					visit(x.Fn.(*ssa.Function))
				}
				ci, ok := ins.(ssa.CallInstruction)
				if !ok {
					continue
				}
				cc := ci.Common()
				if cc.IsInvoke() {
					iface, ok := cc.Value.Type().Underlying().(*types.Interface)
					if !ok {
						continue
					}
					for _, mem := range d.pkg.Members {
						tn, ok := mem.(*ssa.Type)
						if !ok {
							continue
						}
						for _, t := range []types.Type{tn.Type(), types.NewPointer(tn.Type())} {
							if types.Implements(t, iface) {
								if sel := d.prog.MethodSets.MethodSet(t).Lookup(cc.Method.Pkg(), cc.Method.Name()); sel != nil {
									visit(d.prog.MethodValue(sel))
								}
							}
						}
					}
					continue
				}
				switch f := cc.Value.(type) {
				case *ssa.Function:
					visit(f)
				case *ssa.MakeClosure:
					visit(f.Fn.(*ssa.Function))
				case *ssa.Builtin:
				default:
					// a call through a function value: every address-taken package function of that signature
					if sig, ok := cc.Value.Type().Underlying().(*types.Signature); ok {
						for _, tf := range taken {
							if types.Identical(tf.Signature.Underlying(), sig) || sameParams(tf.Signature, sig) {
								visit(tf)
							}
						}
					}
				}
				for _, a := range cc.Args {
					if f, ok := a.(*ssa.Function); ok {
						visit(f)
					}
					if mc, ok := a.(*ssa.MakeClosure); ok {
						visit(mc.Fn.(*ssa.Function))
					}
				}
			}
		}
	}
	for _, r := range roots {
		visit(d.fns[r])
	}
	out := []string{}
	for k := range seen {
		out = append(out, k)
	}
	sort.Strings(out)
	return out
}

// sameParams: signatures equal up to the receiver / free variables (bound methods and closures).
func sameParams(a, b *types.Signature) bool {
	return types.Identical(types.NewSignatureType(nil, nil, nil, a.Params(), a.Results(), a.Variadic()), types.NewSignatureType(nil, nil, nil, b.Params(), b.Results(), b.Variadic()))
}
