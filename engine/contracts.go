package main

import (
	"bufio"
	"fmt"
	"os"
	"regexp"
	"strconv"
	"strings"
)

type Clause struct {
	Label      string
	Expr       *SExpr
	Src        string
	Line       int
	SafetyOnly bool // sensures / safetyinv: proved and used in safety mode only
}

// GuardDecl: how concurrent access to a struct field is excluded.
type GuardDecl struct {
	Kind   string // guarded (by the object's mutex) | confined (to goroutine roots) | immutable | atomicfield | unshared
	Field  string // "Struct.field"
	Roots  []string
	Reason string
	Line   int
}

type LoopSpec struct {
	Steps      []Clause // relations between the state at the head of an iteration (prev(..)) and at its end
	Invariants []Clause
	Decreases  *Clause
	Unroll     int
}

type Contract struct {
	Key            string // "(*T).Method", "Func", or "Iface.Method" for interface contracts
	Iface          bool
	Requires       []Clause
	Assumed        []Clause // data-structure invariants assumed at entry, not demanded from callers (listed as assumptions)
	Ensures        []Clause
	Modifies       []Clause // each a location expression
	HasMod         bool     // a modifies clause was given (possibly "nothing")
	Loops          map[int]*LoopSpec
	Uses           []string // prelude chunks forced into this function's own queries
	Assumes        []string // labels of global invariants assumed at entry
	Events         []Clause // call-event ghosts: "event <ghost>: <expr>" appended at every call site
	REvents        []Clause // like Events but the expression is evaluated over the results / post-state
	Trusted        bool     // contract is assumed, body not checked against it
	Reason         string
	Props          []string
	Safety         bool     // also generate safety obligations when verifying this function
	Holds          []string // parameters whose mutex the caller holds (assumed at entry, checked at call sites in lock-check mode)
	PoolResult bool // the result is a buffer taken from a pool: it stays usable until it is released
	Releases   string // name of the []byte parameter that is handed back to the pool (must not be used afterwards)
	BorrowedResult string   // name of the *bufio.Reader parameter whose buffer the first result may alias
	NoInline       bool
	Line           int
}

type GlobalInv struct {
	Label string
	Expr  *SExpr
	Src   string
}

type ContractSet struct {
	Funcs      map[string]*Contract
	GlobalInvs []GlobalInv
	Lemmas     []Clause // SMT-level lemmas stated over spec functions (proved once)
	TypeInvs   map[string][]Clause
	FieldInvs  map[string][]Clause   // "Struct.field" -> invariants over $v (assumed at loads, proved at stores)
	Frames     []*FrameDecl // who may change a field / call a function (C01 frame discipline)
	Buffered   []*GuardDecl // channel fields that are sent to while a mutex is held: must be created with a positive constant capacity
	Guards     map[string]*GuardDecl // synchronisation discipline per struct field (C09)
	ChanInvs   map[string][]Clause   // invariant of the values travelling on channels of an element type: proved at sends, assumed at receives
	FieldAsms  map[string][]Clause   // lifecycle / configuration facts: assumed at loads in safety mode, never proved
	Files      []string
}

var clauseKw = regexp.MustCompile(`^(func|iface|callback|spawn|fieldassume|fieldinv|safetyinv|sensures|srequires|borrowed-result|pool-result|releases|chaninv|guarded|confined|immutable|atomicfield|unshared|bufferedchan|writers|onlyvia|holds|revent|event|step|uses|assumes|assume|requires|ensures|modifies|loop|invariant|decreases|unroll|trusted|props|safety|noinline|global-invariant|lemma|typeinv|end)\b`)

// LoadContracts reads //@ comment blocks from the given files.
func LoadContracts(files ...string) (*ContractSet, error) {
	cs := &ContractSet{Funcs: map[string]*Contract{}, TypeInvs: map[string][]Clause{}, FieldInvs: map[string][]Clause{}, FieldAsms: map[string][]Clause{}, ChanInvs: map[string][]Clause{}, Guards: map[string]*GuardDecl{}, Files: files}
	for _, f := range files {
		if err := cs.loadFile(f); err != nil {
			return nil, err
		}
	}
	return cs, nil
}

type rawClause struct {
	kw   string
	text string
	line int
}

func (cs *ContractSet) loadFile(path string) error {
	fh, err := os.Open(path)
	if err != nil {
		return err
	}
	defer fh.Close()
	sc := bufio.NewScanner(fh)
	sc.Buffer(make([]byte, 1<<20), 1<<20)
	var raws []rawClause
	ln := 0
	for sc.Scan() {
		ln++
		line := strings.TrimSpace(sc.Text())
		var body string
		if strings.HasPrefix(line, "//@") {
			body = strings.TrimSpace(line[3:])
		} else if strings.HasPrefix(line, "// @") { // gofmt rewrite
			body = strings.TrimSpace(line[4:])
		} else {
			continue
		}
		if body == "" || strings.HasPrefix(body, "#") {
			continue
		}
		if m := clauseKw.FindString(body); m != "" {
			raws = append(raws, rawClause{kw: m, text: strings.TrimSpace(body[len(m):]), line: ln})
		} else if len(raws) > 0 {
			raws[len(raws)-1].text += " " + body
		} else {
			return fmt.Errorf("%s:%d: continuation without clause", path, ln)
		}
	}
	var cur *Contract
	var curLoop *LoopSpec
	labelRe := regexp.MustCompile(`^([A-Za-z0-9_\-]+):[^:]`)
	mkClause := func(r rawClause) (Clause, error) {
		text := r.text
		label := ""
		if m := labelRe.FindStringSubmatch(text); m != nil {
			label = m[1]
			text = strings.TrimSpace(text[len(m[1])+1:])
		}
		e, err := ParseSpec(text)
		if err != nil {
			return Clause{}, fmt.Errorf("%s:%d: %v", path, r.line, err)
		}
		return Clause{Label: label, Expr: e, Src: text, Line: r.line}, nil
	}
	for _, r := range raws {
		switch r.kw {
		case "func", "iface", "callback", "spawn":
			key := strings.TrimSpace(r.text)
			if r.kw == "callback" || r.kw == "spawn" {
				key = r.kw + " " + key
			}
			cur = &Contract{Key: key, Iface: r.kw != "func", Loops: map[int]*LoopSpec{}, Line: r.line}
			if _, dup := cs.Funcs[key]; dup {
				return fmt.Errorf("%s:%d: duplicate contract for %s", path, r.line, key)
			}
			cs.Funcs[key] = cur
			curLoop = nil
		case "end":
			cur = nil
			curLoop = nil
		case "global-invariant":
			c, err := mkClause(r)
			if err != nil {
				return err
			}
			cs.GlobalInvs = append(cs.GlobalInvs, GlobalInv{Label: c.Label, Expr: c.Expr, Src: c.Src})
		case "lemma":
			c, err := mkClause(r)
			if err != nil {
				return err
			}
			cs.Lemmas = append(cs.Lemmas, c)
		case "writers", "onlyvia":
			// writers T.f: F1, F2 | onlyvia G: F1, F2
			txt := strings.TrimSpace(r.text)
			i := strings.Index(txt, ": ")
			if i < 0 {
				if strings.HasSuffix(txt, ":") {
					i = len(txt) - 1
					txt += " "
				} else {
					return fmt.Errorf("%s:%d: %s needs 'target: function, ...'", path, r.line, r.kw)
				}
			}
			fd := &FrameDecl{Kind: r.kw, Target: strings.TrimSpace(txt[:i]), Line: r.line}
			// optional list of the properties whose check decides the declaration: "T.f (C12 C20)"; default C01
			if j := strings.Index(fd.Target, "("); j >= 0 && strings.HasSuffix(fd.Target, ")") && !strings.HasPrefix(fd.Target, "(") {
				fd.Props = strings.Fields(fd.Target[j+1 : len(fd.Target)-1])
				fd.Target = strings.TrimSpace(fd.Target[:j])
			} else if j := strings.LastIndex(fd.Target, " ("); j >= 0 && strings.HasSuffix(fd.Target, ")") {
				fd.Props = strings.Fields(fd.Target[j+2 : len(fd.Target)-1])
				fd.Target = strings.TrimSpace(fd.Target[:j])
			}
			if len(fd.Props) == 0 {
				fd.Props = []string{"C01"}
			}
			for _, x := range splitTop(txt[i+2:]) {
				if x = strings.TrimSpace(x); x != "" {
					fd.Allowed = append(fd.Allowed, x)
				}
			}
			cs.Frames = append(cs.Frames, fd)
		case "guarded", "confined", "immutable", "atomicfield", "unshared", "bufferedchan":
			// guarded T.f | confined T.f: root, root | immutable T.f | atomicfield T.f | unshared T.f: reason
			txt := strings.TrimSpace(r.text)
			rest := ""
			if i := strings.Index(txt, ":"); i >= 0 {
				rest = strings.TrimSpace(txt[i+1:])
				txt = strings.TrimSpace(txt[:i])
			}
			gd := &GuardDecl{Kind: r.kw, Field: txt, Line: r.line}
			if r.kw == "confined" {
				for _, x := range splitTop(rest) {
					gd.Roots = append(gd.Roots, strings.TrimSpace(x))
				}
			} else {
				gd.Reason = rest
			}
			if r.kw == "bufferedchan" {
				// an additional property of a channel-typed field, kept beside its sharing discipline
				cs.Buffered = append(cs.Buffered, gd)
				continue
			}
			cs.Guards[txt] = gd
		case "chaninv":
			idx := strings.Index(r.text, ":")
			if idx < 0 {
				return fmt.Errorf("%s:%d: chaninv needs 'ElemType: expr'", path, r.line)
			}
			tn := strings.TrimSpace(r.text[:idx])
			e, err := ParseSpec(strings.TrimSpace(r.text[idx+1:]))
			if err != nil {
				return fmt.Errorf("%s:%d: %v", path, r.line, err)
			}
			cs.ChanInvs[tn] = append(cs.ChanInvs[tn], Clause{Expr: e, Src: strings.TrimSpace(r.text[idx+1:]), Line: r.line})
		case "fieldinv", "fieldassume", "safetyinv":
			idx := strings.Index(r.text, ":")
			if idx < 0 {
				return fmt.Errorf("%s:%d: fieldinv needs 'Struct.field: expr'", path, r.line)
			}
			fn := strings.TrimSpace(r.text[:idx])
			e, err := ParseSpec(strings.TrimSpace(r.text[idx+1:]))
			if err != nil {
				return fmt.Errorf("%s:%d: %v", path, r.line, err)
			}
			if r.kw == "fieldassume" {
				cs.FieldAsms[fn] = append(cs.FieldAsms[fn], Clause{Expr: e, Src: strings.TrimSpace(r.text[idx+1:]), Line: r.line})
			} else {
				cs.FieldInvs[fn] = append(cs.FieldInvs[fn], Clause{Expr: e, Src: strings.TrimSpace(r.text[idx+1:]), Line: r.line, SafetyOnly: r.kw == "safetyinv"})
			}
		case "typeinv":
			// typeinv T: expr over "self"
			idx := strings.Index(r.text, ":")
			if idx < 0 {
				return fmt.Errorf("%s:%d: typeinv needs 'T: expr'", path, r.line)
			}
			tn := strings.TrimSpace(r.text[:idx])
			e, err := ParseSpec(strings.TrimSpace(r.text[idx+1:]))
			if err != nil {
				return fmt.Errorf("%s:%d: %v", path, r.line, err)
			}
			cs.TypeInvs[tn] = append(cs.TypeInvs[tn], Clause{Expr: e, Src: r.text[idx+1:], Line: r.line})
		default:
			if cur == nil {
				return fmt.Errorf("%s:%d: clause %q outside func block", path, r.line, r.kw)
			}
			switch r.kw {
			case "requires", "srequires", "ensures", "sensures", "invariant", "decreases", "event", "revent", "step", "assume":
				c, err := mkClause(r)
				if err != nil {
					return err
				}
				switch r.kw {
				case "assume":
					cur.Assumed = append(cur.Assumed, c)
				case "step":
					if curLoop == nil {
						return fmt.Errorf("%s:%d: step outside loop", path, r.line)
					}
					curLoop.Steps = append(curLoop.Steps, c)
				case "revent":
					if c.Label == "" {
						return fmt.Errorf("%s:%d: revent needs '<ghost>: <expr>'", path, r.line)
					}
					cur.REvents = append(cur.REvents, c)
				case "event":
					if c.Label == "" {
						return fmt.Errorf("%s:%d: event needs '<ghost>: <expr>'", path, r.line)
					}
					cur.Events = append(cur.Events, c)
				case "requires":
					cur.Requires = append(cur.Requires, c)
				case "srequires":
					c.SafetyOnly = true
					cur.Requires = append(cur.Requires, c)
				case "ensures":
					cur.Ensures = append(cur.Ensures, c)
				case "sensures":
					c.SafetyOnly = true
					cur.Ensures = append(cur.Ensures, c)
				case "invariant":
					if curLoop == nil {
						return fmt.Errorf("%s:%d: invariant outside loop", path, r.line)
					}
					curLoop.Invariants = append(curLoop.Invariants, c)
				case "decreases":
					if curLoop == nil {
						return fmt.Errorf("%s:%d: decreases outside loop", path, r.line)
					}
					cc := c
					curLoop.Decreases = &cc
				}
			case "modifies":
				cur.HasMod = true
				if strings.TrimSpace(r.text) == "nothing" || strings.TrimSpace(r.text) == "" {
					continue
				}
				for _, part := range splitTop(r.text) {
					e, err := ParseSpec(part)
					if err != nil {
						return fmt.Errorf("%s:%d: %v", path, r.line, err)
					}
					cur.Modifies = append(cur.Modifies, Clause{Expr: e, Src: part, Line: r.line})
				}
			case "loop":
				t := strings.TrimSuffix(strings.TrimSpace(r.text), ":")
				n, err := strconv.Atoi(strings.Fields(t)[0])
				if err != nil {
					return fmt.Errorf("%s:%d: loop ordinal expected", path, r.line)
				}
				curLoop = &LoopSpec{}
				cur.Loops[n] = curLoop
			case "unroll":
				if curLoop == nil {
					return fmt.Errorf("%s:%d: unroll outside loop", path, r.line)
				}
				n, _ := strconv.Atoi(strings.TrimSpace(r.text))
				curLoop.Unroll = n
			case "trusted":
				cur.Trusted = true
				cur.Reason = r.text
			case "props":
				cur.Props = append(cur.Props, strings.Fields(strings.ReplaceAll(r.text, ",", " "))...)
			case "safety":
				cur.Safety = true
			case "holds":
				cur.Holds = append(cur.Holds, strings.Fields(strings.ReplaceAll(r.text, ",", " "))...)
			case "noinline":
				cur.NoInline = true
			case "borrowed-result":
				cur.BorrowedResult = strings.TrimSpace(r.text)
			case "pool-result":
				cur.PoolResult = true
			case "releases":
				cur.Releases = strings.TrimSpace(r.text)
			case "uses":
				cur.Uses = append(cur.Uses, strings.Fields(strings.ReplaceAll(r.text, ",", " "))...)
			case "assumes":
				cur.Assumes = append(cur.Assumes, strings.Fields(strings.ReplaceAll(r.text, ",", " "))...)
			}
		}
	}
	return nil
}

// splitTop splits on commas that are not nested in brackets.
func splitTop(s string) []string {
	var parts []string
	depth := 0
	start := 0
	inStr := false
	for i := 0; i < len(s); i++ {
		switch {
		case s[i] == '"':
			inStr = !inStr
		case inStr:
		case s[i] == '(' || s[i] == '[':
			depth++
		case s[i] == ')' || s[i] == ']':
			depth--
		case s[i] == ',' && depth == 0:
			parts = append(parts, strings.TrimSpace(s[start:i]))
			start = i + 1
		}
	}
	if strings.TrimSpace(s[start:]) != "" {
		parts = append(parts, strings.TrimSpace(s[start:]))
	}
	return parts
}

// safetyOnly reports whether the contract consists of safety-mode clauses only (srequires / sensures):
// outside safety mode such a function is treated as if it had no contract (inlined or summarised).
func (c *Contract) safetyOnly() bool {
	if c == nil || c.HasMod || c.Trusted || c.NoInline || len(c.Modifies) > 0 || len(c.Events) > 0 || len(c.REvents) > 0 || len(c.Loops) > 0 || len(c.Assumed) > 0 {
		return false
	}
	n := 0
	for _, r := range c.Requires {
		if !r.SafetyOnly {
			return false
		}
		n++
	}
	for _, r := range c.Ensures {
		if !r.SafetyOnly {
			return false
		}
		n++
	}
	return n > 0
}

// holdsOnly: the contract says nothing but which mutexes the caller holds: the function is still inlined or
// summarised as if it had no contract.
func (c *Contract) holdsOnly() bool {
	return c != nil && (len(c.Holds) > 0 || c.PoolResult || c.Releases != "") && !c.HasMod && !c.Trusted && !c.NoInline && len(c.Modifies) == 0 && len(c.Events) == 0 &&
		len(c.REvents) == 0 && len(c.Loops) == 0 && len(c.Assumed) == 0 && len(c.Requires) == 0 && len(c.Ensures) == 0
}
