#!/usr/bin/env python3
# usage: probe.py file.smt2 [--hyp H]... goal...   : replaces the negated goal by each candidate and reports solver answers
import sys, subprocess
f=sys.argv[1]; args=sys.argv[2:]
hyps=[]; goals=[]
i=0
while i<len(args):
    if args[i]=='--hyp': hyps.append(args[i+1]); i+=2
    else: goals.append(args[i]); i+=1
lines=open(f).read().split('\n')
gi=max(i for i,l in enumerate(lines) if l.startswith('(assert (not'))
for g in goals:
    ls=lines[:gi]+['(assert %s)'%h for h in hyps]+['(assert (not %s))'%g]+lines[gi+1:]
    open('/tmp/probe.smt2','w').write('\n'.join(ls))
    r1=subprocess.run(['z3-new','-T:15','/tmp/probe.smt2'],capture_output=True,text=True).stdout.split('\n')[0]
    r2=subprocess.run(['cvc5','--tlimit=15000','--strings-exp','/tmp/probe.smt2'],capture_output=True,text=True).stdout.split('\n')[0]
    print(g[:100],'| z3new:',r1,'| cvc5:',r2)
