#!/bin/bash
# usage: verify_seeded.sh <candidate-dir> <worktree-dir>   (candidate has patch.diff demo_test.go README.txt)
# Confirms: patch applies to /repo HEAD, builds, full suite passes, demo fails with patch, demo passes without.
export GOFLAGS=-mod=mod GOPROXY=off GOSUMDB=off GOTOOLCHAIN=local
cand="$1"; wt="$2"
res="$cand/verify.txt"; : > "$res"
git -C /repo worktree add -q --detach "$wt" HEAD 2>>"$res" || { echo "RESULT worktree-failed" >> "$res"; exit 0; }
cd "$wt"
if ! git apply --check "$cand/patch.diff" 2>>"$res"; then echo "RESULT noapply" >> "$res"; cd /; git -C /repo worktree remove --force "$wt"; exit 0; fi
git apply "$cand/patch.diff"
if ! go build -o /dev/null . 2>>"$res"; then echo "RESULT nobuild" >> "$res"; cd /; git -C /repo worktree remove --force "$wt"; exit 0; fi
suite=$(go test -vet=off -count=1 ./... 2>&1 | tail -3); echo "suite-with-patch: $suite" >> "$res"
cp "$cand/demo_test.go" ./zz_seeded_demo_test.go
demo1=$(go test -vet=off -count=1 -run TestSeeded . 2>&1 | tail -3); echo "demo-with-patch: $demo1" >> "$res"
git checkout -q -- .
demo0=$(go test -vet=off -count=1 -run TestSeeded . 2>&1 | tail -3); echo "demo-pristine: $demo0" >> "$res"
rm -f zz_seeded_demo_test.go
ok=yes
echo "$suite" | grep -q "^ok" || ok=no-suite
echo "$demo1" | grep -q "FAIL" || ok=no-demo-fail
echo "$demo0" | grep -q "^ok" || ok=no-demo-pass
echo "RESULT $ok" >> "$res"
cd /; git -C /repo worktree remove --force "$wt"
