#!/usr/bin/env python3
# Applies each seeded change to /repo, runs the target property's quick check (and optionally all claimed
# checks), reverts, and records the outcome in seeded/<id>/meta.json.  usage: run_seeded.py [--all-checks] [ids...]
import json, os, subprocess, sys, re
os.chdir('/verif')
args = [a for a in sys.argv[1:] if not a.startswith('--')]
allchecks = '--all-checks' in sys.argv
manifest = json.load(open('MANIFEST.json'))
claimed = [c['property_id'] for c in manifest['checks']]
ids = args or sorted(os.listdir('seeded'))
summary = []
dirty = subprocess.run(["git","-C","/repo","status","--porcelain","--untracked-files=no"],capture_output=True,text=True).stdout.strip()
if dirty:
    print("refusing to run: /repo has uncommitted changes:\n"+dirty); sys.exit(2)
for sid in ids:
    d = os.path.join('seeded', sid)
    if not os.path.exists(os.path.join(d, 'patch.diff')): continue
    prop = sid.split('-')[0]
    subprocess.run(['git','-C','/repo','checkout','-q','--','.'])
    r = subprocess.run(['git','-C','/repo','apply', os.path.abspath(os.path.join(d,'patch.diff'))], capture_output=True, text=True)
    if r.returncode != 0:
        summary.append((sid,'noapply',[])); continue
    caught = []
    out_target = ''
    try:
        props = claimed if allchecks else ([prop] if prop in claimed else [])
        for p in props:
            rr = subprocess.run(['./bin/govc', 'check', '--no-evidence', p], capture_output=True, text=True, env=dict(os.environ, GOFLAGS='-mod=mod', GOPROXY='off', GOSUMDB='off', GOTOOLCHAIN='local'))  # never write evidence from a patched tree
            viol = [l for l in rr.stdout.splitlines() if l.startswith('VIOLATION')]
            if rr.returncode == 1 and viol:
                caught.append({'check': p, 'violations': [re.sub(r'replay=\S+ ', '', v)[:200] for v in viol[:6]]})
            if p == prop: out_target = rr.stdout[-400:]
    finally:
        subprocess.run(['git','-C','/repo','checkout','-q','--','.'])
    status = 'caught' if any(c['check']==prop for c in caught) else ('caught-by-other' if caught else ('unclaimed' if prop not in claimed else 'MISSED'))
    meta_path = os.path.join(d,'meta.json')
    meta = json.load(open(meta_path)) if os.path.exists(meta_path) else {}
    readme = open(os.path.join(d,'README.txt')).read() if os.path.exists(os.path.join(d,'README.txt')) else ''
    meta.update({'id': sid, 'breaks_property': prop,
      'needs_to_manifest': meta.get('needs_to_manifest') or readme.strip()[:1500],
      'confirmed': open(os.path.join(d,'verify.txt')).read().strip().splitlines()[-4:] if os.path.exists(os.path.join(d,'verify.txt')) else [],
      'what_i_ran': 'tools/verify_seeded.sh (apply to a scratch worktree of /repo HEAD, go build, full suite, demo fails with the change and passes without), then tools/run_seeded.py (git -C /repo apply; govc check --no-evidence <prop>; git -C /repo checkout -- .)',
      'detection': {'status': status, 'caught_by': caught}})
    json.dump(meta, open(meta_path,'w'), indent=1)
    summary.append((sid,status,[c['check'] for c in caught]))
for s in summary: print(*s)
