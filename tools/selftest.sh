#!/bin/bash
# Self-test of the machinery (not a registered check): (1) every claimed check is green on /repo, (2) harmless edits
# keep the affected checks green, (3) seeded property-breaking changes are reported, (4) reverting a fix: commit
# brings its obligation back. Applies patches to /repo and reverts them; refuses to run on a dirty /repo.
cd /verif
if [ -n "$(git -C /repo status --porcelain --untracked-files=no)" ]; then echo "refusing: /repo is dirty"; exit 2; fi
echo "== 2. harmless edits"
for d in selftest/harmless/*.diff; do
  props=$(head -1 "$d" | sed -n 's/^# checks: //p')
  git -C /repo apply "$PWD/$d" || { echo "$d does not apply"; continue; }
  for p in $props; do r=$(./bin/govc check --no-evidence $p | tail -1); echo "$(basename $d) $p: $r"; done
  git -C /repo checkout -q -- .
done
echo "== 3. seeded changes"; python3 tools/run_seeded.py
echo "== 4. canaries"; python3 tools/canaries.py
echo "== 1. claimed checks on the unchanged tree (last, so that the evidence files left behind come from the unchanged tree)"
for p in $(python3 -c "import json;print(' '.join(c['property_id'] for c in json.load(open('MANIFEST.json'))['checks']))"); do ./check $p quick | tail -1; done

