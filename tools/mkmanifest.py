#!/usr/bin/env python3
# Regenerates /verif/MANIFEST.json from tools/claims.json (kept by hand).
import json, subprocess
claims = json.load(open('/verif/tools/claims.json'))
try:
    hooks = subprocess.check_output(['git','-C','/repo','log','--format=%H %s'],text=True).splitlines()
except Exception:
    hooks = []
hook_commits = [l.split()[0] for l in hooks if l.split(' ',1)[1].startswith('verif:')]
m = {
 "version": 1,
 "setup_cmd": "./setup.sh",
 "hooks": {
  "guard": "verif",
  "enable": "contracts live in /repo/verif_contracts.go (//go:build verif, comment-only); govc loads /repo with -tags=verif",
  "baseline_off_cmd": "cd /repo && GOFLAGS=-mod=mod GOPROXY=off GOSUMDB=off GOTOOLCHAIN=local go test -vet=off -count=1 ./...",
  "source_commits": hook_commits,
  "add_only": True
 },
 "engines": [{
  "name": "govc",
  "path": "/verif/engine",
  "serves_properties": [c["id"] for c in claims["claimed"]],
  "kind_free_text": "contract-based deductive verifier for Go written for this task: loads /repo's working tree with go/packages, builds go/ssa, reads Gobra-style //@ contracts from /repo/verif_contracts.go, generates weakest-precondition style verification conditions per function (callers see callee contracts only; loops cut at inductive invariants; frame conditions proved), and discharges every obligation by racing z3 4.8.12, z3 5.1.0 and cvc5 1.0"
 }],
 "checks": [],
 "notes": claims.get("notes",""),
 "not_applicable": []
}
claimed = set()
for c in claims["claimed"]:
    claimed.add(c["id"])
    m["checks"].append({
      "property_id": c["id"],
      "quick_cmd": "./check %s quick" % c["id"],
      "thorough_cmd": "./check %s thorough" % c["id"],
      "evidence_file": "/verif/evidence/%s.json" % c["id"],
      "replay_cmd_template": "cat {path}",
      "engine": "govc",
      "level_claimed": {"category": c.get("category","proof"), "text": c["text"], "design_ref": c.get("design_ref","DESIGN.md section 3")},
      "level_note": c["note"],
      "technique": c.get("technique","contract-based deductive verification (own VC generator over go/ssa + SMT)")
    })
for i in range(1,21):
    pid = "C%02d" % i
    if pid not in claimed:
        m["not_applicable"].append({"property_id": pid, "reason": claims["not_applicable"].get(pid, "no check built yet for this property (work in progress; not a statement that the technique cannot apply)")})
json.dump(m, open('/verif/MANIFEST.json','w'), indent=1)
print("claimed:", sorted(claimed))
