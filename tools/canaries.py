#!/usr/bin/env python3
# Known-finding canaries: for every "fixed" record in known_findings.json, revert that fix: commit in a scratch
# worktree of /repo and run the property's check against the worktree: the recorded obligation must be reported
# again (and the replay, where a driver exists, must reproduce). Nothing is changed in /repo or committed anywhere.
# usage: canaries.py [property ...]
import json, os, subprocess, sys, shutil
os.chdir('/verif')
env = dict(os.environ, GOFLAGS='-mod=mod', GOPROXY='off', GOSUMDB='off', GOTOOLCHAIN='local')
known = json.load(open('known_findings.json'))
want = set(sys.argv[1:])
wt = '/tmp/wt_canary'
out = []
for k in known:
    if k.get('status') != 'fixed' or (want and k['property'] not in want):
        continue
    subprocess.run(['git', '-C', '/repo', 'worktree', 'remove', '--force', wt], capture_output=True)
    shutil.rmtree(wt, ignore_errors=True)
    subprocess.run(['git', '-C', '/repo', 'worktree', 'prune'])
    r = subprocess.run(['git', '-C', '/repo', 'worktree', 'add', '-q', '--detach', wt, 'HEAD'], capture_output=True, text=True)
    if r.returncode != 0:
        out.append((k['property'], k['commit'], 'worktree-failed', '')); continue
    r = subprocess.run(['git', '-C', wt, 'revert', '--no-commit', k['commit']], capture_output=True, text=True, env=env)
    if r.returncode != 0:
        out.append((k['property'], k['commit'], 'revert-conflict', k['obligation']))
    else:
        rr = subprocess.run(['./bin/govc', 'check', '--repo', wt, '--no-evidence', k['property']], capture_output=True, text=True, env=env)
        lines = [l for l in rr.stdout.splitlines() if l.startswith('VIOLATION')]
        base = k['obligation'].split('#')[0]
        hit = [l for l in lines if ('obligation=' + base) in l]
        status = 'returns' if hit else ('other-violation' if lines else 'NOT-DETECTED')
        repro = 'reproduced' if any('no-failing-input-found' not in l for l in hit) else 'no-replay'
        out.append((k['property'], k['commit'], status + ('/' + repro if hit else ''), (hit or lines or [''])[0][:160]))
    subprocess.run(['git', '-C', '/repo', 'worktree', 'remove', '--force', wt], capture_output=True)
    shutil.rmtree(wt, ignore_errors=True)
for o in out:
    print(*o)
json.dump([dict(property=a, commit=b, status=c, line=d) for a, b, c, d in out], open('selftest/canaries.json', 'w'), indent=1)
