#!/usr/bin/env python3
# Parallel variant of run_seeded.py: every worker owns a scratch worktree of /repo HEAD (outside /repo and /verif),
# applies one seeded change there, runs the target property's quick check against that tree (govc check --repo <wt>
# --no-evidence) and records the outcome in seeded/<id>/meta.json. /repo itself is not touched; worktrees are removed.
# usage: run_seeded_par.py [-j N] [ids...]
import json, os, subprocess, sys, re, threading, queue
os.chdir('/verif')
args = [a for a in sys.argv[1:]]
nj = 4
if '-j' in args:
    i = args.index('-j'); nj = int(args[i+1]); del args[i:i+2]
manifest = json.load(open('MANIFEST.json'))
claimed = [c['property_id'] for c in manifest['checks']]
ids = args or sorted(d for d in os.listdir('seeded') if os.path.exists(os.path.join('seeded', d, 'patch.diff')))
env = dict(os.environ, GOFLAGS='-mod=mod', GOPROXY='off', GOSUMDB='off', GOTOOLCHAIN='local')
q = queue.Queue()
for s in ids: q.put(s)
summary = {}
lock = threading.Lock()
def worker(n):
    wt = '/tmp/rs_w%d' % n
    subprocess.run(['git','-C','/repo','worktree','remove','--force',wt],capture_output=True)
    subprocess.run(['git','-C','/repo','worktree','add','-q','--detach',wt,'HEAD'],check=True,capture_output=True)
    try:
        while True:
            try: sid = q.get_nowait()
            except queue.Empty: break
            d = os.path.join('seeded', sid); prop = sid.split('-')[0]
            subprocess.run(['git','-C',wt,'checkout','-q','--','.'])
            subprocess.run(['git','-C',wt,'clean','-fdq'])
            r = subprocess.run(['git','-C',wt,'apply',os.path.abspath(os.path.join(d,'patch.diff'))],capture_output=True,text=True)
            if r.returncode != 0:
                with lock: summary[sid] = ('noapply', [])
                continue
            caught = []
            if prop in claimed:
                rr = subprocess.run(['./bin/govc','check','--repo',wt,'--no-evidence',prop],capture_output=True,text=True,env=env)
                viol = [l for l in rr.stdout.splitlines() if l.startswith('VIOLATION')]
                if rr.returncode == 1 and viol:
                    caught.append({'check': prop, 'violations': [re.sub(r'replay=\S+ ', '', v)[:200] for v in viol[:6]]})
                elif rr.returncode == 2:
                    caught.append({'check': prop+':ENGINE-ERROR', 'violations': rr.stdout.splitlines()[-2:]})
            status = 'caught' if any(c['check']==prop for c in caught) else ('engine-error' if caught else 'MISSED')
            meta_path = os.path.join(d,'meta.json')
            meta = json.load(open(meta_path)) if os.path.exists(meta_path) else {}
            readme = open(os.path.join(d,'README.txt')).read() if os.path.exists(os.path.join(d,'README.txt')) else ''
            if meta.get('obsolete') or meta.get('status') == 'obsolete':
                with lock: summary[sid] = ('obsolete', [])
                continue
            old = meta.get('detection', {})
            others = [c for c in old.get('caught_by', []) if c['check'] != prop and not c['check'].endswith('ENGINE-ERROR')]
            if status == 'MISSED' and others: status = 'caught-by-other'
            meta.update({'id': sid, 'breaks_property': prop,
              'needs_to_manifest': meta.get('needs_to_manifest') or readme.strip()[:1500],
              'confirmed': open(os.path.join(d,'verify.txt')).read().strip().splitlines()[-4:] if os.path.exists(os.path.join(d,'verify.txt')) else [],
              'what_i_ran': 'tools/verify_seeded.sh (apply to a scratch worktree of /repo HEAD, go build, full suite, demo fails with the change and passes without), then the target check against the patched tree (tools/run_seeded.py: git -C /repo apply; govc check --no-evidence <prop>; git -C /repo checkout -- . / tools/run_seeded_par.py: the same in a scratch worktree with govc check --repo)',
              'detection': {'status': status, 'caught_by': caught + (others if status != 'caught' else [])}})
            json.dump(meta, open(meta_path,'w'), indent=1)
            with lock:
                summary[sid] = (status, [c['check'] for c in caught])
                print(sid, status, flush=True)
    finally:
        subprocess.run(['git','-C','/repo','worktree','remove','--force',wt],capture_output=True)
ts = [threading.Thread(target=worker, args=(i,)) for i in range(nj)]
for t in ts: t.start()
for t in ts: t.join()
from collections import Counter
print(Counter(v[0] for v in summary.values()))
for s in sorted(summary):
    if summary[s][0] not in ('caught',): print(s, *summary[s])
