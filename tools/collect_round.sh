#!/bin/bash
# usage: collect_round.sh <out-dir> <suffix> <pid>...   copies a sub-agent's deliverables to seeded/<pid>-<suffix> and confirms them
# in a scratch worktree (tools/verify_seeded.sh); the sub-agent's own worktree /tmp/seed6/<pid> is removed.
out="$1"; suf="$2"; shift 2
for pid in "$@"; do
  src="$out/$pid"; dst="/verif/seeded/$pid-$suf"
  [ -f "$src/patch.diff" ] || { echo "$pid: no patch"; continue; }
  mkdir -p "$dst"; cp "$src/patch.diff" "$src/demo_test.go" "$src/README.txt" "$dst/" 2>/dev/null
  /verif/tools/verify_seeded.sh "$dst" "/tmp/wt_verify_$pid"
  echo "$pid: $(tail -1 $dst/verify.txt)"
  [ -d "$(dirname $out)/$pid" ] && git -C /repo worktree remove --force "$(dirname $out)/$pid"
done
