; dialog identity is direction-independent: swapping the (tag, address) halves gives the same identifier
(declare-const c String) (declare-const ft String) (declare-const fa String) (declare-const tt String) (declare-const ta String)
(assert (not (= (dialogIdOf c ft fa tt ta) (dialogIdOf c tt ta ft fa))))
