; reassembly lemma used by readLine: splitting a non-empty, LF-free fragment that does not end in CR off the front
; of a stream does not change the line (chunk streamlemma states it as an axiom; here it is proved from the definitions)
(declare-const a String) (declare-const b String)
(assert (> (str.len a) 0))
(assert (not (str.contains a "\u{a}")))
(assert (not (str.suffixof "\u{d}" a)))
(assert (not (and (= (lineOf (str.++ a b)) (str.++ a (lineOf b))) (= (afterLine (str.++ a b)) (afterLine b)))))
