; L-cycle (induction step): iterating i -> (i+1) mod n from i0 gives (i0+j) mod n after j steps,
; because ((x mod n) + 1) mod n == (x+1) mod n for every x >= 0, n > 0.
(declare-const n Int)
(declare-const x Int)
(assert (> n 0))
(assert (>= x 0))
(assert (not (= (go_mod (+ (go_mod x n) 1) n) (go_mod (+ x 1) n))))
