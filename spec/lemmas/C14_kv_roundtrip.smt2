; round trip of one parameter: printing the pair a parameter text denotes gives the text back, for every text that is
; a bare name or name=value with a non-empty value
(declare-const p String)
(assert (or (< (str.indexof p "=" 0) 0) (< (+ (str.indexof p "=" 0) 1) (str.len p))))
(assert (not (= (kvText (kvOfText p)) p)))
