; two transaction-bound TCP keys for the same resolved host and port are equal only for the same transaction id
(declare-const h String) (declare-const n Int) (declare-const t1 String) (declare-const t2 String)
(assert tkeyDef)
(assert (not (= t1 "")))
(assert (not (= t2 "")))
(assert (not (= t1 t2)))
(assert (= (tkey "tcp" h n t1) (tkey "tcp" h n t2)))
