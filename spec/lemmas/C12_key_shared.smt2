; the shared per-destination entry (no transaction id) never coincides with a transaction-bound key of that destination
(declare-const h String) (declare-const n Int) (declare-const t1 String)
(assert tkeyDef)
(assert (not (= t1 "")))
(assert (= (tkey "tcp" h n t1) (tkey "tcp" h n "")))
