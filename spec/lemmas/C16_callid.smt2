; changing only the Call-ID changes the identifier
(declare-const c String) (declare-const c2 String) (declare-const ft String) (declare-const fa String) (declare-const tt String) (declare-const ta String)
(assert (not (= c c2)))
(assert (= (dialogIdOf c ft fa tt ta) (dialogIdOf c2 ft fa tt ta)))
