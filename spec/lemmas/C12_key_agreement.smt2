; registration (handleRawMessage: protocol "tcp") and lookup (sendMessage: the Via transport of a request that
; arrived over TCP, lower-cased by GetTransport) use the same key for the same resolved host, port and transaction
(declare-const r String) (declare-const n Int) (declare-const t String) (declare-const tr String)
(assert tkeyDef)
(assert (or (= tr "TCP") (= tr "tcp") (= tr "Tcp")))
(assert (not (= (tkey "tcp" r n t) (tkey (lower tr) r n t))))
