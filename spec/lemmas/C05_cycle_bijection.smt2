; L-cycle (bijection): for n > 0 and 0 <= i0 < n the map j -> (i0 + j) mod n is injective on 1..n
; and lands in [0,n): n consecutive dispatches reach n distinct slots, i.e. each backend exactly once.
(declare-const n Int)
(declare-const i0 Int)
(declare-const j1 Int)
(declare-const j2 Int)
(assert (> n 0))
(assert (and (<= 0 i0) (< i0 n)))
(assert (and (<= 1 j1) (<= j1 n) (<= 1 j2) (<= j2 n)))
(assert (not (and
   (<= 0 (go_mod (+ i0 j1) n)) (< (go_mod (+ i0 j1) n) n)
   (=> (= (go_mod (+ i0 j1) n) (go_mod (+ i0 j2) n)) (= j1 j2)))))
