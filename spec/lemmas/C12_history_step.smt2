; One step of the history argument for connection affinity, over the postconditions of the table contracts (which are
; the hypotheses here, exactly as GetTransport / handleRawMessage / sendMessage state them) and the key lemmas
; (C12_key_transaction, C12_key_shared):
;   transaction A is live: the entry under kA holds a transport wrapping connection cA and is not expired;
;   then a request of another transaction B (different transaction id, same or different destination) is registered;
;   afterwards the entry under kA is still there, is the same object, and still wraps cA - so a lookup for A's response
;   (hit-keeps) returns it.
(declare-fun T0 (String) Int)      ; table before: key -> entry object (0 = absent)
(declare-fun T1 (String) Int)      ; table after the registration of B
(declare-fun P0 (Int) Int)         ; primary transport of an entry object, before / after
(declare-fun P1 (Int) Int)
(declare-fun connOf (Int) Int)     ; connection wrapped by a transport object (immutable once created)
(declare-fun unexpired0 (Int) Bool)
(declare-const kA String) (declare-const kB String) (declare-const kBshared String)
(declare-const cA Int) (declare-const cB Int) (declare-const eB Int) (declare-const tB Int)
; key lemmas: B's key and B's shared per-destination key differ from A's transaction key
(assert (not (= kA kB)))
(assert (not (= kA kBshared)))
; A is live before
(assert (not (= (T0 kA) 0)))
(assert (= (connOf (P0 (T0 kA))) cA))
(assert (unexpired0 (T0 kA)))
; GetTransport for B (others-kept, others-not-added, entries-untouched) ...
(assert (forall ((k String)) (=> (and (not (= (T0 k) 0)) (unexpired0 (T0 k))) (and (not (= (T1 k) 0)) (=> (not (= k kB)) (= (T1 k) (T0 k)))))))
(assert (= (T1 kB) eB))
; ... followed by handleRawMessage's store of B's connection into the entry returned (other-entries-untouched)
(assert (forall ((e Int)) (=> (not (= e eB)) (= (P1 e) (P0 e)))))
(assert (= (P1 eB) tB))
(assert (= (connOf tB) cB))
; table invariant: distinct keys hold distinct entry objects
(assert (forall ((k1 String) (k2 String)) (=> (and (not (= k1 k2)) (not (= (T0 k1) 0)) (not (= (T0 k2) 0))) (not (= (T0 k1) (T0 k2))))))
; the entry returned for B is the one already stored under kB (hit) or a fresh object, which no key holds yet (miss-fresh)
(declare-const alloc0 Int)
(assert (forall ((k String)) (<= (T0 k) alloc0)))
(assert (or (and (not (= (T0 kB) 0)) (= eB (T0 kB))) (> eB alloc0)))
(assert (not (= eB 0)))
; entries under other keys are old entries or absent (others-not-added)
(assert (forall ((k String)) (=> (and (not (= k kB)) (not (= k kBshared)) (not (= (T1 k) 0))) (= (T1 k) (T0 k)))))
; claim: A's entry survives unchanged, and A's key still has an entry object of its own
(assert (not (and (not (= (T1 kA) 0)) (= (T1 kA) (T0 kA)) (= (connOf (P1 (T1 kA))) cA) (not (= (T1 kA) (T1 kB))))))
