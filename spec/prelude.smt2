;@chunk core
(declare-datatypes ((Any 0)) (((mkAny (tyOf Int) (refOf Int) (strOf String)))))
(define-fun anyNil () Any (mkAny 0 0 ""))
; canonical form of interface values as produced by boxing: strings carry no reference, everything else no string
(define-fun anyWF ((x Any)) Bool
  (and (>= (tyOf x) 0)
       (=> (= (tyOf x) 1) (= (refOf x) 0))
       (=> (not (= (tyOf x) 1)) (= (strOf x) ""))
       (=> (= (tyOf x) 0) (= (refOf x) 0))))
(define-fun go_div ((a Int) (b Int)) Int
  (ite (>= a 0) (ite (> b 0) (div a b) (- (div a (- b))))
                (ite (> b 0) (- (div (- a) b)) (div (- a) (- b)))))
(define-fun go_mod ((a Int) (b Int)) Int
  (ite (>= a 0) (mod a b) (- (mod (- a) b))))
(define-fun itoa ((i Int)) String (ite (>= i 0) (str.from_int i) (str.++ "-" (str.from_int (- i)))))
; textual form of a socket address as printed by net.Addr.String: always resolvable again
(declare-fun isSockAddr (String) Bool)
;@ghost W (Array Int String)
; byte streams: RS = bytes a reader has not delivered yet (for a network connection: all bytes it will ever
; deliver - a prophecy), RU = the byte UnreadByte would restore ("" if none), RE = number of reads made on a
; bufio.Reader (slices handed out by ReadLine are valid only while it is unchanged)
;@ghost RS (Array Int String)
;@ghost RU (Array Int String)
;@ghost RE (Array Int Int)
;@ghost limitMarks (Seq String)
;@ghost pmInput (Seq String)
;@ghost now Int
;@ghost held (Array Int Bool)

;@chunk lastIndexOf lastIndexOf
(declare-fun lastIndexOf (String String) Int)
(assert (forall ((s String) (t String)) (! (and
   (>= (lastIndexOf s t) (- 1))
   (= (= (lastIndexOf s t) (- 1)) (not (str.contains s t)))
   (=> (>= (lastIndexOf s t) 0)
       (and (= (str.substr s (lastIndexOf s t) (str.len t)) t)
            (<= (+ (lastIndexOf s t) (str.len t)) (str.len s))
            (>= (lastIndexOf s t) (str.indexof s t 0))
            (=> (> (str.len t) 0) (not (str.contains (str.substr s (+ (lastIndexOf s t) 1) (str.len s)) t))))))
   :pattern ((lastIndexOf s t)))))

;@chunk trimSpace trimSpace
(declare-fun trimSpace (String) String)
(define-fun isBlankCode ((c Int)) Bool (or (= c 32) (= c 9) (= c 10) (= c 11) (= c 12) (= c 13) (= c 133) (= c 160)))
(assert (forall ((s String)) (! (and
   (str.contains s (trimSpace s))
   (<= (str.len (trimSpace s)) (str.len s))
   (= (trimSpace (trimSpace s)) (trimSpace s))
   (=> (> (str.len (trimSpace s)) 0)
       (and (not (isBlankCode (str.to_code (str.at (trimSpace s) 0))))
            (not (isBlankCode (str.to_code (str.at (trimSpace s) (- (str.len (trimSpace s)) 1)))))))
   (=> (and (> (str.len s) 0) (not (isBlankCode (str.to_code (str.at s 0)))) (not (isBlankCode (str.to_code (str.at s (- (str.len s) 1))))))
       (= (trimSpace s) s))
   (=> (= (str.len s) 0) (= (trimSpace s) s)))
   :pattern ((trimSpace s)))))

;@chunk lower lower
(declare-fun lower (String) String)
(assert (forall ((s String)) (! (and (= (lower (lower s)) (lower s)) (= (str.len (lower s)) (str.len s))) :pattern ((lower s)))))
(assert (and (= (lower "TCP") "tcp") (= (lower "UDP") "udp") (= (lower "Tcp") "tcp") (= (lower "Udp") "udp")))
; a string of printable ASCII characters none of which is an upper-case letter is its own lower-case form
(assert (forall ((s String)) (! (=> (str.in_re s (re.* (re.union (re.range " " "@") (re.range "[" "~")))) (= (lower s) s)) :pattern ((lower s)))))

;@chunk split split
(declare-fun split (String String) Sq_String)
(assert (forall ((s String) (sep String)) (! (= (split s sep)
  (ite (and (str.contains s sep) (> (str.len sep) 0))
       (sq_app_String (sq_unit_String (str.substr s 0 (str.indexof s sep 0)))
               (split (str.substr s (+ (str.indexof s sep 0) (str.len sep)) (str.len s)) sep))
       (sq_unit_String s))) :pattern ((split s sep)))))
(assert (forall ((s String) (sep String)) (! (>= (sq_len_String (split s sep)) 1) :pattern ((split s sep)))))

;@chunk fields fields
(declare-fun fields (String) Sq_String)
(assert (forall ((s String)) (! (>= (sq_len_String (fields s)) 0) :pattern ((fields s)))))

;@chunk join join
(declare-fun join (Sq_String String) String)
(assert (forall ((xs Sq_String) (sep String)) (! (= (join xs sep)
  (ite (<= (sq_len_String xs) 0) ""
  (ite (= (sq_len_String xs) 1) (sq_nth_String xs 0)
       (str.++ (sq_nth_String xs 0) sep (join (sq_ext_String xs 1 (- (sq_len_String xs) 1)) sep))))) :pattern ((join xs sep)))))

;@chunk atoi atoiOk atoiVal
(declare-fun atoiOk (String) Bool)
(declare-fun atoiVal (String) Int)
(assert (forall ((s String)) (! (and
   (=> (atoiOk s) (>= (str.len s) 1))
   (=> (and (>= (str.to_int s) 0) (<= (str.len s) 18)) (and (atoiOk s) (= (atoiVal s) (str.to_int s))))
   (=> (and (str.prefixof "-" s) (>= (str.to_int (str.substr s 1 (str.len s))) 0) (<= (str.len s) 19))
       (and (atoiOk s) (= (atoiVal s) (- (str.to_int (str.substr s 1 (str.len s)))))))
   (=> (and (str.prefixof "+" s) (>= (str.to_int (str.substr s 1 (str.len s))) 0) (<= (str.len s) 19))
       (and (atoiOk s) (= (atoiVal s) (str.to_int (str.substr s 1 (str.len s))))))
   (=> (atoiOk s) (or (>= (str.to_int s) 0)
                      (and (or (str.prefixof "-" s) (str.prefixof "+" s)) (>= (str.to_int (str.substr s 1 (str.len s))) 0)))))
   :pattern ((atoiOk s)))))

;@chunk net joinHostPort parseIP
(define-fun joinHostPort ((h String) (p String)) String
  (ite (or (str.contains h ":") (str.contains h "%")) (str.++ "[" h "]:" p) (str.++ h ":" p)))
(declare-fun parseIP (String) String)
(assert (forall ((s String)) (! (or (= (str.len (parseIP s)) 0) (= (str.len (parseIP s)) 16)) :pattern ((parseIP s)))))

;@chunk regexp reValid reMatch rePattern
(declare-fun reValid (String) Bool)
(declare-fun reMatch (String String) Bool)
(declare-fun rePattern (Int) String)

;@chunk fmtDyn fmtDyn
(declare-fun fmtDyn (String) String)
(assert (forall ((f String)) (! (=> (not (str.contains f "%")) (= (fmtDyn f) f)) :pattern ((fmtDyn f)))))

;@chunk backend backendAddr udpAddrString
; address of a backend. TCP: the immutable backendAddr field; UDP: String() of the immutable *net.UDPAddr;
; anything else (the round-robin pool used as a Backend): unspecified.
(declare-fun udpAddrString (Int) String)
(declare-fun otherBackendAddr (Any) String)
(define-fun backendAddr ((H_TCPBackend_backendAddr (Array Int String)) (H_UDPBackend_backendAddr (Array Int Int)) (a Any)) String
  (ite (= (tyOf a) TID__TCPBackend) (select H_TCPBackend_backendAddr (refOf a))
  (ite (= (tyOf a) TID__UDPBackend) (udpAddrString (select H_UDPBackend_backendAddr (refOf a)))
       (otherBackendAddr a))))
;@ghost sends (Seq Any)
;@ghost closedB (Seq Any)
;@ghost bmAdds (Seq Any)
;@ghost bmRemoves (Seq Any)
;@ghost lnAdds (Seq Any)
;@ghost lnRemoves (Seq Any)

;@chunk netio msgBytesOf
; bytes of a message: used only inside a single send, during which the message is not modified (frame-checked)
(declare-fun msgBytesOf (Int) String)
;@ghost wok (Seq Any)
;@ghost wbytes (Seq String)
;@ghost wfail (Seq Any)
;@ghost closedC (Seq Any)
;@ghost dials (Seq Any)
;@ghost dialok (Seq Any)
(declare-fun msgBytesFail (Int) Bool)
;@ghost ctsends (Seq Any)
;@ghost cbcalls (Seq Any)

;@chunk seqsub seqSub strIn
; membership in a string sequence (front-peeling definition)
(declare-fun strIn (String Sq_String) Bool)
(assert (forall ((s String) (a Sq_String)) (! (= (strIn s a)
  (ite (<= (sq_len_String a) 0) false
       (or (= (sq_nth_String a 0) s) (strIn s (sq_ext_String a 1 (- (sq_len_String a) 1)))))) :pattern ((strIn s a)))))
; subsequence of a whose elements do not occur in b (defined by peeling the last element)
(declare-fun seqSub (Sq_String Sq_String) Sq_String)
(assert (forall ((a Sq_String) (b Sq_String)) (! (= (seqSub a b)
  (ite (<= (sq_len_String a) 0) sq_empty_String
       (sq_app_String (seqSub (sq_ext_String a 0 (- (sq_len_String a) 1)) b)
               (ite (strIn (sq_nth_String a (- (sq_len_String a) 1)) b)
                    sq_empty_String
                    (sq_unit_String (sq_nth_String a (- (sq_len_String a) 1))))))) :pattern ((seqSub a b)))))
;@ghost nHost (Seq String)
;@ghost nNew (Seq (Seq String))
;@ghost nRemoved (Seq (Seq String))

;@chunk hostport hostPortOf mapHostPort
(define-fun hostPortOf ((ip String) (port String)) String
  (ite (str.contains ip ":") (str.++ "[" ip "]:" port) (str.++ ip ":" port)))
(declare-fun mapHostPort (Sq_String String) Sq_String)
(assert (forall ((ips Sq_String) (port String)) (! (= (mapHostPort ips port)
  (ite (<= (sq_len_String ips) 0) sq_empty_String
       (sq_app_String (mapHostPort (sq_ext_String ips 0 (- (sq_len_String ips) 1)) port)
               (sq_unit_String (hostPortOf (sq_nth_String ips (- (sq_len_String ips) 1)) port))))) :pattern ((mapHostPort ips port)))))
;@ghost rrAdds (Seq String)
;@ghost rrRemoves (Seq String)

;@chunk glob globRe routeMatch
; regular expression text generated for a static-route pattern: '.' escaped first, then '*' -> '.*', anchored
(define-fun globRe ((s String)) String
  (str.++ "^" (str.replace_all (str.replace_all s "." "\u{5c}.") "*" ".*") "$"))
(define-fun routeMatch ((pat String) (dest String)) Bool
  (and (reValid (globRe pat)) (reMatch (globRe pat) dest)))

;@chunk compact isCompactKey compactOf canonName
; RFC 3261 section 7.3.3 / 20 compact header forms known to the proxy (lower-cased), as a total involution table
(define-fun isCompactKey ((k String)) Bool (or (= k "accept-contact") (= k "referred-by") (= k "content-type") (= k "content-encoding") (= k "from") (= k "call-id") (= k "supported") (= k "content-length") (= k "contact") (= k "event") (= k "refer-to") (= k "subject") (= k "to") (= k "allow-events") (= k "via") (= k "a") (= k "b") (= k "c") (= k "e") (= k "f") (= k "i") (= k "k") (= k "l") (= k "m") (= k "o") (= k "r") (= k "s") (= k "t") (= k "u") (= k "v")))
(define-fun compactOf ((k String)) String (ite (= k "accept-contact") "a" (ite (= k "a") "accept-contact" (ite (= k "referred-by") "b" (ite (= k "b") "referred-by" (ite (= k "content-type") "c" (ite (= k "c") "content-type" (ite (= k "content-encoding") "e" (ite (= k "e") "content-encoding" (ite (= k "from") "f" (ite (= k "f") "from" (ite (= k "call-id") "i" (ite (= k "i") "call-id" (ite (= k "supported") "k" (ite (= k "k") "supported" (ite (= k "content-length") "l" (ite (= k "l") "content-length" (ite (= k "contact") "m" (ite (= k "m") "contact" (ite (= k "event") "o" (ite (= k "o") "event" (ite (= k "refer-to") "r" (ite (= k "r") "refer-to" (ite (= k "subject") "s" (ite (= k "s") "subject" (ite (= k "to") "t" (ite (= k "t") "to" (ite (= k "allow-events") "u" (ite (= k "u") "allow-events" (ite (= k "via") "v" (ite (= k "v") "via" k)))))))))))))))))))))))))))))))
(define-fun canonName ((n String)) String (ite (= (lower n) "a") "accept-contact" (ite (= (lower n) "b") "referred-by" (ite (= (lower n) "c") "content-type" (ite (= (lower n) "e") "content-encoding" (ite (= (lower n) "f") "from" (ite (= (lower n) "i") "call-id" (ite (= (lower n) "k") "supported" (ite (= (lower n) "l") "content-length" (ite (= (lower n) "m") "contact" (ite (= (lower n) "o") "event" (ite (= (lower n) "r") "refer-to" (ite (= (lower n) "s") "subject" (ite (= (lower n) "t") "to" (ite (= (lower n) "u") "allow-events" (ite (= (lower n) "v") "via" (lower n)))))))))))))))))
(assert (and (= (lower "Accept-Contact") "accept-contact") (= (lower "Allow-Events") "allow-events") (= (lower "CSeq") "cseq") (= (lower "Call-ID") "call-id") (= (lower "Contact") "contact") (= (lower "Content-Encoding") "content-encoding") (= (lower "Content-Length") "content-length") (= (lower "Content-Type") "content-type") (= (lower "Event") "event") (= (lower "Expires") "expires") (= (lower "From") "from") (= (lower "Max-Forwards") "max-forwards") (= (lower "Record-Route") "record-route") (= (lower "Refer-To") "refer-to") (= (lower "Referred-By") "referred-by") (= (lower "Route") "route") (= (lower "Subject") "subject") (= (lower "Subscription-State") "subscription-state") (= (lower "Supported") "supported") (= (lower "TCP") "tcp") (= (lower "TLS") "tls") (= (lower "To") "to") (= (lower "UDP") "udp") (= (lower "Via") "via") (= (lower "a") "a") (= (lower "accept-contact") "accept-contact") (= (lower "allow-events") "allow-events") (= (lower "b") "b") (= (lower "c") "c") (= (lower "call-id") "call-id") (= (lower "contact") "contact") (= (lower "content-encoding") "content-encoding") (= (lower "content-length") "content-length") (= (lower "content-type") "content-type") (= (lower "cseq") "cseq") (= (lower "e") "e") (= (lower "event") "event") (= (lower "expires") "expires") (= (lower "f") "f") (= (lower "from") "from") (= (lower "i") "i") (= (lower "k") "k") (= (lower "l") "l") (= (lower "m") "m") (= (lower "max-forwards") "max-forwards") (= (lower "o") "o") (= (lower "r") "r") (= (lower "record-route") "record-route") (= (lower "refer-to") "refer-to") (= (lower "referred-by") "referred-by") (= (lower "route") "route") (= (lower "s") "s") (= (lower "subject") "subject") (= (lower "subscription-state") "subscription-state") (= (lower "supported") "supported") (= (lower "t") "t") (= (lower "tcp") "tcp") (= (lower "tls") "tls") (= (lower "to") "to") (= (lower "u") "u") (= (lower "udp") "udp") (= (lower "v") "v") (= (lower "via") "via")))

;@chunk hdr isHdr firstIdx firstIdxU sameHdrName
; sameHdrName(a, b): header names a and b denote the same header field (defined in chunk hdrcanon)
(declare-fun sameHdrName (String String) Bool)
; header h (a *Header reference) carries the header field named n, up to case and compact form
(define-fun isHdr ((H_Header_name (Array Int String)) (h Int) (n String)) Bool
  (sameHdrName (select H_Header_name h) n))
; index of the first header named n in the list hs, or -1 (definitional axiom: the minimum exists)
(declare-fun firstIdxU ((Array Int String) Sq_Int String) Int)
(define-fun firstIdx ((H_Header_name (Array Int String)) (hs Sq_Int) (n String)) Int (firstIdxU H_Header_name hs n))
(assert (forall ((H (Array Int String)) (hs Sq_Int) (n String)) (!
  (and (>= (firstIdxU H hs n) (- 1)) (< (firstIdxU H hs n) (sq_len_Int hs))
       (=> (>= (firstIdxU H hs n) 0) (sameHdrName (select H (sq_nth_Int hs (firstIdxU H hs n))) n))
       (forall ((j Int)) (! (=> (and (<= 0 j) (< j (ite (>= (firstIdxU H hs n) 0) (firstIdxU H hs n) (sq_len_Int hs))))
                                (not (sameHdrName (select H (sq_nth_Int hs j)) n)))
                            :pattern ((sq_nth_Int hs j)))))
  :pattern ((firstIdxU H hs n)))))

; distinct well-known header names never denote the same header (proved from the definition: lemma C17_disjoint)
(assert (forall ((n String)) (! (=> (sameHdrName n "Via") (and (not (sameHdrName n "CSeq")) (not (sameHdrName n "From")) (not (sameHdrName n "To")) (not (sameHdrName n "Route")) (not (sameHdrName n "Record-Route")) (not (sameHdrName n "Call-ID")) (not (sameHdrName n "Content-Length")) (not (sameHdrName n "Expires")) (not (sameHdrName n "Max-Forwards")) (not (sameHdrName n "Subscription-State")))) :pattern ((sameHdrName n "Via")))))
(assert (forall ((n String)) (! (=> (sameHdrName n "CSeq") (and (not (sameHdrName n "Via")) (not (sameHdrName n "From")) (not (sameHdrName n "To")) (not (sameHdrName n "Route")) (not (sameHdrName n "Record-Route")) (not (sameHdrName n "Call-ID")) (not (sameHdrName n "Content-Length")) (not (sameHdrName n "Expires")) (not (sameHdrName n "Max-Forwards")) (not (sameHdrName n "Subscription-State")))) :pattern ((sameHdrName n "CSeq")))))
(assert (forall ((n String)) (! (=> (sameHdrName n "From") (and (not (sameHdrName n "Via")) (not (sameHdrName n "CSeq")) (not (sameHdrName n "To")) (not (sameHdrName n "Route")) (not (sameHdrName n "Record-Route")) (not (sameHdrName n "Call-ID")) (not (sameHdrName n "Content-Length")) (not (sameHdrName n "Expires")) (not (sameHdrName n "Max-Forwards")) (not (sameHdrName n "Subscription-State")))) :pattern ((sameHdrName n "From")))))
(assert (forall ((n String)) (! (=> (sameHdrName n "To") (and (not (sameHdrName n "Via")) (not (sameHdrName n "CSeq")) (not (sameHdrName n "From")) (not (sameHdrName n "Route")) (not (sameHdrName n "Record-Route")) (not (sameHdrName n "Call-ID")) (not (sameHdrName n "Content-Length")) (not (sameHdrName n "Expires")) (not (sameHdrName n "Max-Forwards")) (not (sameHdrName n "Subscription-State")))) :pattern ((sameHdrName n "To")))))
(assert (forall ((n String)) (! (=> (sameHdrName n "Route") (and (not (sameHdrName n "Via")) (not (sameHdrName n "CSeq")) (not (sameHdrName n "From")) (not (sameHdrName n "To")) (not (sameHdrName n "Record-Route")) (not (sameHdrName n "Call-ID")) (not (sameHdrName n "Content-Length")) (not (sameHdrName n "Expires")) (not (sameHdrName n "Max-Forwards")) (not (sameHdrName n "Subscription-State")))) :pattern ((sameHdrName n "Route")))))
(assert (forall ((n String)) (! (=> (sameHdrName n "Record-Route") (and (not (sameHdrName n "Via")) (not (sameHdrName n "CSeq")) (not (sameHdrName n "From")) (not (sameHdrName n "To")) (not (sameHdrName n "Route")) (not (sameHdrName n "Call-ID")) (not (sameHdrName n "Content-Length")) (not (sameHdrName n "Expires")) (not (sameHdrName n "Max-Forwards")) (not (sameHdrName n "Subscription-State")))) :pattern ((sameHdrName n "Record-Route")))))
(assert (forall ((n String)) (! (=> (sameHdrName n "Call-ID") (and (not (sameHdrName n "Via")) (not (sameHdrName n "CSeq")) (not (sameHdrName n "From")) (not (sameHdrName n "To")) (not (sameHdrName n "Route")) (not (sameHdrName n "Record-Route")) (not (sameHdrName n "Content-Length")) (not (sameHdrName n "Expires")) (not (sameHdrName n "Max-Forwards")) (not (sameHdrName n "Subscription-State")))) :pattern ((sameHdrName n "Call-ID")))))
(assert (forall ((n String)) (! (=> (sameHdrName n "Content-Length") (and (not (sameHdrName n "Via")) (not (sameHdrName n "CSeq")) (not (sameHdrName n "From")) (not (sameHdrName n "To")) (not (sameHdrName n "Route")) (not (sameHdrName n "Record-Route")) (not (sameHdrName n "Call-ID")) (not (sameHdrName n "Expires")) (not (sameHdrName n "Max-Forwards")) (not (sameHdrName n "Subscription-State")))) :pattern ((sameHdrName n "Content-Length")))))
(assert (forall ((n String)) (! (=> (sameHdrName n "Expires") (and (not (sameHdrName n "Via")) (not (sameHdrName n "CSeq")) (not (sameHdrName n "From")) (not (sameHdrName n "To")) (not (sameHdrName n "Route")) (not (sameHdrName n "Record-Route")) (not (sameHdrName n "Call-ID")) (not (sameHdrName n "Content-Length")) (not (sameHdrName n "Max-Forwards")) (not (sameHdrName n "Subscription-State")))) :pattern ((sameHdrName n "Expires")))))
(assert (forall ((n String)) (! (=> (sameHdrName n "Max-Forwards") (and (not (sameHdrName n "Via")) (not (sameHdrName n "CSeq")) (not (sameHdrName n "From")) (not (sameHdrName n "To")) (not (sameHdrName n "Route")) (not (sameHdrName n "Record-Route")) (not (sameHdrName n "Call-ID")) (not (sameHdrName n "Content-Length")) (not (sameHdrName n "Expires")) (not (sameHdrName n "Subscription-State")))) :pattern ((sameHdrName n "Max-Forwards")))))
(assert (forall ((n String)) (! (=> (sameHdrName n "Subscription-State") (and (not (sameHdrName n "Via")) (not (sameHdrName n "CSeq")) (not (sameHdrName n "From")) (not (sameHdrName n "To")) (not (sameHdrName n "Route")) (not (sameHdrName n "Record-Route")) (not (sameHdrName n "Call-ID")) (not (sameHdrName n "Content-Length")) (not (sameHdrName n "Expires")) (not (sameHdrName n "Max-Forwards")))) :pattern ((sameHdrName n "Subscription-State")))))

;@chunk hdrcanon sameHdrNameDef
; definition of sameHdrName: equality of canonical names (lower-case, compact letter -> long name)
(define-fun sameHdrNameDef () Bool true)
(assert (forall ((a String) (b String)) (! (= (sameHdrName a b) (= (canonName a) (canonName b))) :pattern ((sameHdrName a b)))))


;@chunk kv kvFirst kvFirstU kvHas kvGet
; index of the first parameter named k in an ordered parameter list, or -1 (definitional axiom)
(declare-fun kvFirstU (Sq_D_KeyValue String) Int)
(define-fun kvFirst ((ps Sq_D_KeyValue) (k String)) Int (kvFirstU ps k))
(assert (forall ((ps Sq_D_KeyValue) (k String)) (!
  (and (>= (kvFirstU ps k) (- 1)) (< (kvFirstU ps k) (sq_len_D_KeyValue ps))
       (=> (>= (kvFirstU ps k) 0) (= (KeyValue_Key (sq_nth_D_KeyValue ps (kvFirstU ps k))) k))
       (forall ((j Int)) (! (=> (and (<= 0 j) (< j (ite (>= (kvFirstU ps k) 0) (kvFirstU ps k) (sq_len_D_KeyValue ps))))
                                (not (= (KeyValue_Key (sq_nth_D_KeyValue ps j)) k)))
                            :pattern ((sq_nth_D_KeyValue ps j)))))
  :pattern ((kvFirstU ps k)))))
(define-fun kvHas ((ps Sq_D_KeyValue) (k String)) Bool (>= (kvFirstU ps k) 0))
(define-fun kvGet ((ps Sq_D_KeyValue) (k String)) String (KeyValue_Value (sq_nth_D_KeyValue ps (kvFirstU ps k))))

;@chunk hop hopHost hopPort viaPort hopHostU hopPortU viaPortU
; response next hop of a Via entry p (RFC 3261 18.2.2 / RFC 3581): received over sent-by host; numeric rport
; (only honoured together with received, as the statement says) over the sent-by port; default port 5060
; (5061 when the entry's transport is literally "TLS" - unobservable, TLS leads to a drop)
(declare-fun viaPortU ((Array Int Int) (Array Int String) Int) Int)
(define-fun viaPort ((H_ViaParam_port (Array Int Int)) (H_ViaParam_Transport (Array Int String)) (p Int)) Int (viaPortU H_ViaParam_port H_ViaParam_Transport p))
(assert (forall ((hp (Array Int Int)) (ht (Array Int String)) (p Int)) (! (= (viaPortU hp ht p)
  (ite (not (= (select hp p) 0)) (select hp p) (ite (= (select ht p) "TLS") 5061 5060))) :pattern ((viaPortU hp ht p)))))
(declare-fun hopHostU ((Array Int Sq_D_KeyValue) (Array Int String) Int) String)
(define-fun hopHost ((H_ViaParam_Params (Array Int Sq_D_KeyValue)) (H_ViaParam_Host (Array Int String)) (p Int)) String (hopHostU H_ViaParam_Params H_ViaParam_Host p))
(assert (forall ((hps (Array Int Sq_D_KeyValue)) (hh (Array Int String)) (p Int)) (! (= (hopHostU hps hh p)
  (ite (kvHas (select hps p) "received") (kvGet (select hps p) "received") (select hh p))) :pattern ((hopHostU hps hh p)))))
(declare-fun hopPortU ((Array Int Sq_D_KeyValue) (Array Int Int) (Array Int String) Int) Int)
(define-fun hopPort ((H_ViaParam_Params (Array Int Sq_D_KeyValue)) (H_ViaParam_port (Array Int Int)) (H_ViaParam_Transport (Array Int String)) (p Int)) Int (hopPortU H_ViaParam_Params H_ViaParam_port H_ViaParam_Transport p))
(assert (forall ((hps (Array Int Sq_D_KeyValue)) (hp (Array Int Int)) (ht (Array Int String)) (p Int)) (! (= (hopPortU hps hp ht p)
  (ite (and (kvHas (select hps p) "received") (kvHas (select hps p) "rport") (atoiOk (kvGet (select hps p) "rport")))
       (atoiVal (kvGet (select hps p) "rport"))
       (viaPortU hp ht p))) :pattern ((hopPortU hps hp ht p)))))
; the hop of an entry depends only on that entry's own fields
(assert (forall ((hps (Array Int Sq_D_KeyValue)) (hp (Array Int Int)) (ht (Array Int String)) (hps2 (Array Int Sq_D_KeyValue)) (hp2 (Array Int Int)) (ht2 (Array Int String)) (p Int))
  (! (=> (and (= (select hps p) (select hps2 p)) (= (select hp p) (select hp2 p)) (= (select ht p) (select ht2 p)))
         (= (hopPortU hps hp ht p) (hopPortU hps2 hp2 ht2 p)))
     :pattern ((hopPortU hps hp ht p) (hopPortU hps2 hp2 ht2 p)))))
(assert (forall ((hps (Array Int Sq_D_KeyValue)) (hh (Array Int String)) (hps2 (Array Int Sq_D_KeyValue)) (hh2 (Array Int String)) (p Int))
  (! (=> (and (= (select hps p) (select hps2 p)) (= (select hh p) (select hh2 p)))
         (= (hopHostU hps hh p) (hopHostU hps2 hh2 p)))
     :pattern ((hopHostU hps hh p) (hopHostU hps2 hh2 p)))))

;@chunk listeners stAddr stPort stProto
(declare-fun stAddr (Any) String)
(declare-fun stPort (Any) Int)
(declare-fun stProto (Any) String)
;@ghost smHost (Seq String)
;@ghost smPort (Seq Int)
;@ghost smTransport (Seq String)
;@ghost smMsg (Seq Int)
;@ghost stb (Seq Int)
;@ghost popvias (Seq Int)
;@ghost pins (Seq String)
;@ghost pinBackends (Seq Any)
;@ghost unpins (Seq String)
;@ghost stamps (Seq Int)
;@ghost stampAddr (Seq String)
;@ghost stampPort (Seq Int)
;@ghost npiRS (Seq Bool)
;@ghost npRS (Seq Bool)

;@chunk uuid uuidString lastSeg
; textual form of a UUID value (8-4-4-4-12 lower-hex); only used as an opaque function of the drawn value
(declare-fun uuidString (String) String)
(define-fun lastSeg ((s String) (sep String)) String (sq_nth_String (split s sep) (- (sq_len_String (split s sep)) 1)))
;@ghost uuidDraws (Seq String)
;@ghost addvias (Seq Int)
;@ghost addviaT (Seq Any)
;@ghost addrrs (Seq Int)
;@ghost addrrT (Seq Any)

;@chunk rrpos rrPos
; position at which a new Record-Route header is inserted: before the first Record-Route header, else at the
; smaller of the positions of From and Max-Forwards (whichever exist), else at 0
(define-fun rrPos ((H_Header_name (Array Int String)) (hs Sq_Int)) Int
  (ite (>= (firstIdxU H_Header_name hs "Record-Route") 0) (firstIdxU H_Header_name hs "Record-Route")
  (ite (and (>= (firstIdxU H_Header_name hs "From") 0) (>= (firstIdxU H_Header_name hs "Max-Forwards") 0))
       (ite (< (firstIdxU H_Header_name hs "From") (firstIdxU H_Header_name hs "Max-Forwards")) (firstIdxU H_Header_name hs "From") (firstIdxU H_Header_name hs "Max-Forwards"))
  (ite (>= (firstIdxU H_Header_name hs "From") 0) (firstIdxU H_Header_name hs "From")
  (ite (>= (firstIdxU H_Header_name hs "Max-Forwards") 0) (firstIdxU H_Header_name hs "Max-Forwards") 0)))))

;@chunk sipuri sipTransport sipPort
(define-fun sipTransport ((H_SIPURI_Parameters (Array Int Sq_D_KeyValue)) (u Int)) String
  (ite (kvHas (select H_SIPURI_Parameters u) "transport") (kvGet (select H_SIPURI_Parameters u) "transport") "udp"))
(define-fun sipPort ((H_SIPURI_Parameters (Array Int Sq_D_KeyValue)) (H_SIPURI_port (Array Int Int)) (u Int)) Int
  (ite (not (= (select H_SIPURI_port u) 0)) (select H_SIPURI_port u)
       (ite (= (sipTransport H_SIPURI_Parameters u) "tls") 5061 5060)))

;@chunk resolve knownHost knownIp
; hosts the proxy can resolve without DNS: IP literals and entries of the configured host table
(define-fun knownHost ((MD_String_String (Array Int (Array String Bool))) (tbl Int) (a String)) Bool
  (or (not (= (str.len (parseIP a)) 0)) (select (select MD_String_String tbl) a)))
(define-fun knownIp ((MV_String_String (Array Int (Array String String))) (tbl Int) (a String)) String
  (ite (not (= (str.len (parseIP a)) 0)) a (select (select MV_String_String tbl) a)))
;@ghost poproutes (Seq Int)

;@chunk decisions brOk
;@ghost brOk (Seq Bool)
;@ghost brHost (Seq String)
;@ghost brPort (Seq Int)
;@ghost brTransport (Seq String)
;@ghost bcOk (Seq Bool)
;@ghost bcHost (Seq String)
;@ghost bcPort (Seq Int)
;@ghost bcTransport (Seq String)
;@ghost routeOk (Seq Bool)
;@ghost routeHost (Seq String)
;@ghost routePort (Seq Int)
;@ghost routeTransport (Seq String)
;@ghost mineRes (Seq Bool)
;@ghost frDest (Seq String)
;@ghost frOk (Seq Bool)
;@ghost frHost (Seq String)
;@ghost frPort (Seq Int)
;@ghost frProto (Seq String)

;@chunk myname nameMatchesSip
; a configured service name matches a SIP URI's (user, host): either the bare host, or user@host
(define-fun nameMatchesSip ((name String) (user String) (host String)) Bool
  (ite (= (str.indexof name "@" 0) (- 1))
       (= host name)
       (and (= host (str.substr name (+ (str.indexof name "@" 0) 1) (str.len name)))
            (= user (str.substr name 0 (str.indexof name "@" 0))))))
;@ghost gdOk (Seq Bool)
;@ghost gdId (Seq String)
;@ghost lookups (Seq String)
;@ghost gbOk (Seq Bool)
;@ghost gbBackend (Seq Any)
;@ghost fbdOk (Seq Bool)
;@ghost fbdBackend (Seq Any)
;@ghost fbdTransport (Seq Any)
;@ghost gborOk (Seq Bool)
;@ghost gborBackend (Seq Any)
;@ghost ctOk (Seq Bool)
;@ghost ctId (Seq String)
;@ghost fbpi (Seq Int)
;@ghost gborAddr (Seq String)

;@chunk truthy isTruthy envValue
; values of keepNextHopRoute / KEEP_NEXT_HOP_ROUTE that switch the option on (compared in lower case)
(define-fun isTruthy ((s String)) Bool
  (or (= (lower s) "true") (= (lower s) "yes") (= (lower s) "1") (= (lower s) "on") (= (lower s) "t") (= (lower s) "y")))
(declare-fun envValue (String) String)
;@ghost hopOk (Seq Bool)
;@ghost hopHostE (Seq String)
;@ghost hopPortE (Seq Int)
;@ghost hopTransportE (Seq String)

;@chunk dialogid sipBase sipBaseU dialogIdOf
; a SIP URI without parameters and headers: scheme ":" [user [":" password] "@"] host [":" port]
(declare-fun sipBaseU ((Array Int String) (Array Int String) (Array Int String) (Array Int String) (Array Int Int) Int) String)
(define-fun sipBase ((H_SIPURI_Scheme (Array Int String)) (H_SIPURI_User (Array Int String)) (H_SIPURI_Password (Array Int String)) (H_SIPURI_Host (Array Int String)) (H_SIPURI_port (Array Int Int)) (u Int)) String
  (sipBaseU H_SIPURI_Scheme H_SIPURI_User H_SIPURI_Password H_SIPURI_Host H_SIPURI_port u))
(assert (forall ((H_SIPURI_Scheme (Array Int String)) (H_SIPURI_User (Array Int String)) (H_SIPURI_Password (Array Int String)) (H_SIPURI_Host (Array Int String)) (H_SIPURI_port (Array Int Int)) (u Int))
  (! (= (sipBaseU H_SIPURI_Scheme H_SIPURI_User H_SIPURI_Password H_SIPURI_Host H_SIPURI_port u)
  (str.++ (select H_SIPURI_Scheme u) ":"
          (ite (> (str.len (select H_SIPURI_User u)) 0)
               (ite (> (str.len (select H_SIPURI_Password u)) 0)
                    (str.++ (select H_SIPURI_User u) ":" (select H_SIPURI_Password u) "@")
                    (str.++ (select H_SIPURI_User u) "@"))
               "")
          (select H_SIPURI_Host u)
          (ite (not (= (select H_SIPURI_port u) 0)) (str.++ ":" (itoa (select H_SIPURI_port u))) "")))
  :pattern ((sipBaseU H_SIPURI_Scheme H_SIPURI_User H_SIPURI_Password H_SIPURI_Host H_SIPURI_port u)))))
; the dialog identifier: Call-ID and the two (tag "-" address) halves, ordered by address and then by tag
(define-fun dialogIdOf ((c String) (ft String) (fa String) (tt String) (ta String)) String
  (ite (or (str.< fa ta) (and (= fa ta) (str.< ft tt)))
       (str.++ c "-" ft "-" fa "-" tt "-" ta)
       (str.++ c "-" tt "-" ta "-" ft "-" fa)))

;@chunk tkey tkey stripBr ctExpireAt unexpiredAt
; key of the client-transport table: protocol://host:port, plus -<transaction> for a TCP entry bound to a transaction
(declare-fun tkey (String String Int String) String)
(define-fun stripBr ((h String)) String
  (ite (and (>= (str.len h) 2) (str.prefixof "[" h) (str.suffixof "]" h)) (str.substr h 1 (- (str.len h) 2)) h))
; expiry instant (unix seconds) of a leaf client transport: only TCP transports wrapping an accepted connection expire
(define-fun ctExpireAt ((H_TCPClientTransport_expire (Array Int Int)) (a Any)) Int
  (ite (= (tyOf a) TID__TCPClientTransport) (select H_TCPClientTransport_expire (refOf a)) 0))
; a fail-over entry none of whose transports is past its expiry at unix time t
(define-fun unexpiredAt ((H_TCPClientTransport_expire (Array Int Int)) (H_FailOverClientTransport_primary (Array Int Any)) (H_FailOverClientTransport_secondary (Array Int Any)) (e Int) (t Int)) Bool
  (and (or (<= (ctExpireAt H_TCPClientTransport_expire (select H_FailOverClientTransport_primary e)) 0) (<= t (ctExpireAt H_TCPClientTransport_expire (select H_FailOverClientTransport_primary e))))
       (or (<= (ctExpireAt H_TCPClientTransport_expire (select H_FailOverClientTransport_secondary e)) 0) (<= t (ctExpireAt H_TCPClientTransport_expire (select H_FailOverClientTransport_secondary e))))))
;@ghost gtProto (Seq String)
;@ghost gtHost (Seq String)
;@ghost gtPort (Seq Int)
;@ghost gtTid (Seq String)
;@ghost gtOk (Seq Bool)
;@ghost gtRes (Seq Int)
;@ghost rtProto (Seq String)
;@ghost rtHost (Seq String)
;@ghost rtPort (Seq Int)
;@ghost rtTid (Seq String)
;@ghost fosends (Seq Int)

;@chunk tkeydef tkeyDef
; definition of the table key (kept out of the queries that only compare keys)
(define-fun tkeyDef () Bool true)
(assert (forall ((proto String) (host String) (port Int) (tid String))
  (! (= (tkey proto host port tid)
        (str.++ proto "://" (joinHostPort host (itoa port)) (ite (and (= proto "tcp") (not (= tid ""))) (str.++ "-" tid) "")))
     :pattern ((tkey proto host port tid)))))


;@chunk stream lineOf afterLine dropCR isWsStr isWsCode
; the next line of a byte stream as ReadLine delivers it (line ending dropped), and what follows it
(define-fun dropCR ((w String)) String (ite (str.suffixof "\u{d}" w) (str.substr w 0 (- (str.len w) 1)) w))
(declare-fun lineOf (String) String)
(declare-fun afterLine (String) String)
(assert (forall ((s String)) (! (= (lineOf s) (ite (>= (str.indexof s "\u{a}" 0) 0) (dropCR (str.substr s 0 (str.indexof s "\u{a}" 0))) s)) :pattern ((lineOf s)))))
(assert (forall ((s String)) (! (= (afterLine s) (ite (>= (str.indexof s "\u{a}" 0) 0) (str.substr s (+ (str.indexof s "\u{a}" 0) 1) (str.len s)) "")) :pattern ((afterLine s)))))
(define-fun isWsCode ((c Int)) Bool (or (= c 9) (= c 10) (= c 11) (= c 12) (= c 13) (= c 32)))
; strings made of the white space skipWhiteSpace swallows between messages
(define-fun isWsStr ((s String)) Bool
  (str.in_re s (re.* (re.union (str.to_re "\u{9}") (str.to_re "\u{a}") (str.to_re "\u{b}") (str.to_re "\u{c}") (str.to_re "\u{d}") (str.to_re " ")))))

;@chunk kvtext kvText kvOfText kvSeqText hdrSeqText
; text of one parameter (valueless parameters print their name only) and the pair a parameter text denotes
(define-fun kvText ((kv D_KeyValue)) String
  (ite (> (str.len (KeyValue_Value kv)) 0) (str.++ (KeyValue_Key kv) "=" (KeyValue_Value kv)) (KeyValue_Key kv)))
(define-fun kvOfText ((p String)) D_KeyValue
  (ite (>= (str.indexof p "=" 0) 0)
       (mk_KeyValue (str.substr p 0 (str.indexof p "=" 0)) (str.substr p (+ (str.indexof p "=" 0) 1) (- (str.len p) (+ (str.indexof p "=" 0) 1))))
       (mk_KeyValue p "")))
; text of the first i parameters of a list, each preceded by sep (";" for uri- and header parameters)
(declare-fun kvSeqText (String Sq_D_KeyValue Int) String)
(assert (forall ((sep String) (ps Sq_D_KeyValue)) (! (= (kvSeqText sep ps 0) "") :pattern ((kvSeqText sep ps 0)))))
(assert (forall ((sep String) (ps Sq_D_KeyValue) (i Int))
  (! (=> (and (> i 0) (<= i (sq_len_D_KeyValue ps)))
         (= (kvSeqText sep ps i) (str.++ (kvSeqText sep ps (- i 1)) sep (kvText (sq_nth_D_KeyValue ps (- i 1))))))
     :pattern ((kvSeqText sep ps i)))))
; text of the first i URI headers: ?k=v&k=v...
(declare-fun hdrSeqText (Sq_D_KeyValue Int) String)
(assert (forall ((ps Sq_D_KeyValue)) (! (= (hdrSeqText ps 0) "") :pattern ((hdrSeqText ps 0)))))
(assert (forall ((ps Sq_D_KeyValue) (i Int))
  (! (=> (and (> i 0) (<= i (sq_len_D_KeyValue ps)))
         (= (hdrSeqText ps i) (str.++ (hdrSeqText ps (- i 1)) (ite (= i 1) "?" "&") (KeyValue_Key (sq_nth_D_KeyValue ps (- i 1))) "=" (KeyValue_Value (sq_nth_D_KeyValue ps (- i 1))))))
     :pattern ((hdrSeqText ps i)))))

;@chunk addrtext sipFullText addrSpecText nameAddrText viaParamText viaHeadText
; full text of a decoded SIP URI, of an addr-spec, of a name-addr and of one Via entry, as the printers must emit them
(define-fun sipFullText ((H_SIPURI_Scheme (Array Int String)) (H_SIPURI_User (Array Int String)) (H_SIPURI_Password (Array Int String)) (H_SIPURI_Host (Array Int String)) (H_SIPURI_port (Array Int Int)) (H_SIPURI_Parameters (Array Int Sq_D_KeyValue)) (H_SIPURI_Headers (Array Int Sq_D_KeyValue)) (u Int)) String
  (str.++ (sipBaseU H_SIPURI_Scheme H_SIPURI_User H_SIPURI_Password H_SIPURI_Host H_SIPURI_port u)
          (kvSeqText ";" (select H_SIPURI_Parameters u) (sq_len_D_KeyValue (select H_SIPURI_Parameters u)))
          (hdrSeqText (select H_SIPURI_Headers u) (sq_len_D_KeyValue (select H_SIPURI_Headers u)))))
(define-fun addrSpecText ((H_SIPURI_Scheme (Array Int String)) (H_SIPURI_User (Array Int String)) (H_SIPURI_Password (Array Int String)) (H_SIPURI_Host (Array Int String)) (H_SIPURI_port (Array Int Int)) (H_SIPURI_Parameters (Array Int Sq_D_KeyValue)) (H_SIPURI_Headers (Array Int Sq_D_KeyValue)) (H_AddrSpec_sipURI (Array Int Int)) (H_AddrSpec_absoluteURI (Array Int Int)) (H_AbsoluteURI_absURI (Array Int String)) (a Int)) String
  (ite (not (= (select H_AddrSpec_sipURI a) 0))
       (sipFullText H_SIPURI_Scheme H_SIPURI_User H_SIPURI_Password H_SIPURI_Host H_SIPURI_port H_SIPURI_Parameters H_SIPURI_Headers (select H_AddrSpec_sipURI a))
       (ite (not (= (select H_AddrSpec_absoluteURI a) 0)) (select H_AbsoluteURI_absURI (select H_AddrSpec_absoluteURI a)) "")))
(define-fun nameAddrText ((H_SIPURI_Scheme (Array Int String)) (H_SIPURI_User (Array Int String)) (H_SIPURI_Password (Array Int String)) (H_SIPURI_Host (Array Int String)) (H_SIPURI_port (Array Int Int)) (H_SIPURI_Parameters (Array Int Sq_D_KeyValue)) (H_SIPURI_Headers (Array Int Sq_D_KeyValue)) (H_AddrSpec_sipURI (Array Int Int)) (H_AddrSpec_absoluteURI (Array Int Int)) (H_AbsoluteURI_absURI (Array Int String)) (H_NameAddr_DisplayName (Array Int String)) (H_NameAddr_Addr (Array Int Int)) (n Int)) String
  (str.++ (select H_NameAddr_DisplayName n) "<"
          (addrSpecText H_SIPURI_Scheme H_SIPURI_User H_SIPURI_Password H_SIPURI_Host H_SIPURI_port H_SIPURI_Parameters H_SIPURI_Headers H_AddrSpec_sipURI H_AddrSpec_absoluteURI H_AbsoluteURI_absURI (select H_NameAddr_Addr n))
          ">"))
; a Via entry: sent-protocol, sent-by (the port only if the text had one), parameters
(define-fun viaHeadText ((H_ViaParam_ProtocolName (Array Int String)) (H_ViaParam_ProtocolVersion (Array Int String)) (H_ViaParam_Transport (Array Int String)) (H_ViaParam_Host (Array Int String)) (H_ViaParam_port (Array Int Int)) (v Int)) String
  (str.++ (select H_ViaParam_ProtocolName v) "/" (select H_ViaParam_ProtocolVersion v) "/" (select H_ViaParam_Transport v) " " (select H_ViaParam_Host v)
          (ite (not (= (select H_ViaParam_port v) 0)) (str.++ ":" (itoa (select H_ViaParam_port v))) "")))
(define-fun viaParamText ((H_ViaParam_ProtocolName (Array Int String)) (H_ViaParam_ProtocolVersion (Array Int String)) (H_ViaParam_Transport (Array Int String)) (H_ViaParam_Host (Array Int String)) (H_ViaParam_port (Array Int Int)) (H_ViaParam_Params (Array Int Sq_D_KeyValue)) (v Int)) String
  (str.++ (viaHeadText H_ViaParam_ProtocolName H_ViaParam_ProtocolVersion H_ViaParam_Transport H_ViaParam_Host H_ViaParam_port v)
          (kvSeqText ";" (select H_ViaParam_Params v) (sq_len_D_KeyValue (select H_ViaParam_Params v)))))

;@chunk msgtext anyString hdrLine hdrsText hdrsTextU firstLineText
; text of a header value as fmt's %v prints it: a raw (never decoded) value is the received string itself; a decoded
; value prints through its String method - anyString then denotes that text in the heap of the call being verified
; (contracts never relate it across states in which the decoded object differs)
(declare-fun anyString (Any) String)
(assert (forall ((x Any)) (! (=> (= (tyOf x) 1) (= (anyString x) (strOf x))) :pattern ((anyString x)))))
(define-fun hdrLine ((H_Header_name (Array Int String)) (H_Header_value (Array Int Any)) (h Int)) String
  (str.++ (select H_Header_name h) ": " (anyString (select H_Header_value h)) "\u{d}\u{a}"))
; text of the first i headers of the list: one line each, in order, every spelling of Content-Length left out
(declare-fun hdrsTextU ((Array Int String) (Array Int Any) Sq_Int Int) String)
(define-fun hdrsText ((H_Header_name (Array Int String)) (H_Header_value (Array Int Any)) (hs Sq_Int) (i Int)) String (hdrsTextU H_Header_name H_Header_value hs i))
(assert (forall ((H_Header_name (Array Int String)) (H_Header_value (Array Int Any)) (hs Sq_Int))
  (! (= (hdrsTextU H_Header_name H_Header_value hs 0) "") :pattern ((hdrsTextU H_Header_name H_Header_value hs 0)))))
(assert (forall ((H_Header_name (Array Int String)) (H_Header_value (Array Int Any)) (hs Sq_Int) (i Int))
  (! (=> (and (> i 0) (<= i (sq_len_Int hs)))
         (= (hdrsTextU H_Header_name H_Header_value hs i)
            (str.++ (hdrsTextU H_Header_name H_Header_value hs (- i 1))
                    (ite (isHdr H_Header_name (sq_nth_Int hs (- i 1)) "Content-Length") "" (hdrLine H_Header_name H_Header_value (sq_nth_Int hs (- i 1)))))))
     :pattern ((hdrsTextU H_Header_name H_Header_value hs i)))))
; start line of a message as it must be re-emitted
(define-fun firstLineText ((H_Message_request (Array Int Int)) (H_Message_response (Array Int Int)) (H_RequestLine_method (Array Int String)) (H_RequestLine_requestURI (Array Int Int)) (H_RequestLine_version (Array Int String)) (H_StatusLine_version (Array Int String)) (H_StatusLine_statusCode (Array Int Int)) (H_StatusLine_reason (Array Int String))
   (H_SIPURI_Scheme (Array Int String)) (H_SIPURI_User (Array Int String)) (H_SIPURI_Password (Array Int String)) (H_SIPURI_Host (Array Int String)) (H_SIPURI_port (Array Int Int)) (H_SIPURI_Parameters (Array Int Sq_D_KeyValue)) (H_SIPURI_Headers (Array Int Sq_D_KeyValue)) (H_AddrSpec_sipURI (Array Int Int)) (H_AddrSpec_absoluteURI (Array Int Int)) (H_AbsoluteURI_absURI (Array Int String)) (m Int)) String
  (ite (not (= (select H_Message_request m) 0))
       (str.++ (select H_RequestLine_method (select H_Message_request m)) " "
               (addrSpecText H_SIPURI_Scheme H_SIPURI_User H_SIPURI_Password H_SIPURI_Host H_SIPURI_port H_SIPURI_Parameters H_SIPURI_Headers H_AddrSpec_sipURI H_AddrSpec_absoluteURI H_AbsoluteURI_absURI (select H_RequestLine_requestURI (select H_Message_request m)))
               " " (select H_RequestLine_version (select H_Message_request m)) "\u{d}\u{a}")
       (ite (not (= (select H_Message_response m) 0))
            (str.++ (select H_StatusLine_version (select H_Message_response m)) " " (itoa (select H_StatusLine_statusCode (select H_Message_response m))) " " (select H_StatusLine_reason (select H_Message_response m)) "\u{d}\u{a}")
            "")))

;@chunk listtext routeParamText recRouteText viaSeqText routeSeqText recRouteSeqText fromHeadText toHeadText fromHeadTextU toHeadTextU viaSeqTextU routeSeqTextU recRouteSeqTextU
; a route / record-route entry: name-addr followed by its ';'-separated parameters
(define-fun routeParamText ((H_SIPURI_Scheme (Array Int String)) (H_SIPURI_User (Array Int String)) (H_SIPURI_Password (Array Int String)) (H_SIPURI_Host (Array Int String)) (H_SIPURI_port (Array Int Int)) (H_SIPURI_Parameters (Array Int Sq_D_KeyValue)) (H_SIPURI_Headers (Array Int Sq_D_KeyValue)) (H_AddrSpec_sipURI (Array Int Int)) (H_AddrSpec_absoluteURI (Array Int Int)) (H_AbsoluteURI_absURI (Array Int String)) (H_NameAddr_DisplayName (Array Int String)) (H_NameAddr_Addr (Array Int Int)) (H_RouteParam_nameAddr (Array Int Int)) (H_RouteParam_rrParam (Array Int Sq_D_KeyValue)) (r Int)) String
  (str.++ (nameAddrText H_SIPURI_Scheme H_SIPURI_User H_SIPURI_Password H_SIPURI_Host H_SIPURI_port H_SIPURI_Parameters H_SIPURI_Headers H_AddrSpec_sipURI H_AddrSpec_absoluteURI H_AbsoluteURI_absURI H_NameAddr_DisplayName H_NameAddr_Addr (select H_RouteParam_nameAddr r))
          (kvSeqText ";" (select H_RouteParam_rrParam r) (sq_len_D_KeyValue (select H_RouteParam_rrParam r)))))
(define-fun recRouteText ((H_SIPURI_Scheme (Array Int String)) (H_SIPURI_User (Array Int String)) (H_SIPURI_Password (Array Int String)) (H_SIPURI_Host (Array Int String)) (H_SIPURI_port (Array Int Int)) (H_SIPURI_Parameters (Array Int Sq_D_KeyValue)) (H_SIPURI_Headers (Array Int Sq_D_KeyValue)) (H_AddrSpec_sipURI (Array Int Int)) (H_AddrSpec_absoluteURI (Array Int Int)) (H_AbsoluteURI_absURI (Array Int String)) (H_NameAddr_DisplayName (Array Int String)) (H_NameAddr_Addr (Array Int Int)) (H_RecRoute_nameAddr (Array Int Int)) (H_RecRoute_rrParam (Array Int Sq_D_KeyValue)) (r Int)) String
  (str.++ (nameAddrText H_SIPURI_Scheme H_SIPURI_User H_SIPURI_Password H_SIPURI_Host H_SIPURI_port H_SIPURI_Parameters H_SIPURI_Headers H_AddrSpec_sipURI H_AddrSpec_absoluteURI H_AbsoluteURI_absURI H_NameAddr_DisplayName H_NameAddr_Addr (select H_RecRoute_nameAddr r))
          (kvSeqText ";" (select H_RecRoute_rrParam r) (sq_len_D_KeyValue (select H_RecRoute_rrParam r)))))
; comma-joined text of the first i entries of a Via / Route / Record-Route list
(declare-fun viaSeqTextU ((Array Int String) (Array Int String) (Array Int String) (Array Int String) (Array Int Int) (Array Int Sq_D_KeyValue) Sq_Int Int) String)
(define-fun viaSeqText ((H_ViaParam_ProtocolName (Array Int String)) (H_ViaParam_ProtocolVersion (Array Int String)) (H_ViaParam_Transport (Array Int String)) (H_ViaParam_Host (Array Int String)) (H_ViaParam_port (Array Int Int)) (H_ViaParam_Params (Array Int Sq_D_KeyValue)) (es Sq_Int) (i Int)) String (viaSeqTextU H_ViaParam_ProtocolName H_ViaParam_ProtocolVersion H_ViaParam_Transport H_ViaParam_Host H_ViaParam_port H_ViaParam_Params es i))
(assert (forall ((H_ViaParam_ProtocolName (Array Int String)) (H_ViaParam_ProtocolVersion (Array Int String)) (H_ViaParam_Transport (Array Int String)) (H_ViaParam_Host (Array Int String)) (H_ViaParam_port (Array Int Int)) (H_ViaParam_Params (Array Int Sq_D_KeyValue)) (es Sq_Int)) (! (= (viaSeqTextU H_ViaParam_ProtocolName H_ViaParam_ProtocolVersion H_ViaParam_Transport H_ViaParam_Host H_ViaParam_port H_ViaParam_Params es 0) "") :pattern ((viaSeqTextU H_ViaParam_ProtocolName H_ViaParam_ProtocolVersion H_ViaParam_Transport H_ViaParam_Host H_ViaParam_port H_ViaParam_Params es 0)))))
(assert (forall ((H_ViaParam_ProtocolName (Array Int String)) (H_ViaParam_ProtocolVersion (Array Int String)) (H_ViaParam_Transport (Array Int String)) (H_ViaParam_Host (Array Int String)) (H_ViaParam_port (Array Int Int)) (H_ViaParam_Params (Array Int Sq_D_KeyValue)) (es Sq_Int) (i Int))
  (! (=> (and (> i 0) (<= i (sq_len_Int es)))
         (= (viaSeqTextU H_ViaParam_ProtocolName H_ViaParam_ProtocolVersion H_ViaParam_Transport H_ViaParam_Host H_ViaParam_port H_ViaParam_Params es i) (str.++ (viaSeqTextU H_ViaParam_ProtocolName H_ViaParam_ProtocolVersion H_ViaParam_Transport H_ViaParam_Host H_ViaParam_port H_ViaParam_Params es (- i 1)) (ite (= i 1) "" ",") (viaParamText H_ViaParam_ProtocolName H_ViaParam_ProtocolVersion H_ViaParam_Transport H_ViaParam_Host H_ViaParam_port H_ViaParam_Params (sq_nth_Int es (- i 1))))))
     :pattern ((viaSeqTextU H_ViaParam_ProtocolName H_ViaParam_ProtocolVersion H_ViaParam_Transport H_ViaParam_Host H_ViaParam_port H_ViaParam_Params es i)))))
(declare-fun routeSeqTextU ((Array Int String) (Array Int String) (Array Int String) (Array Int String) (Array Int Int) (Array Int Sq_D_KeyValue) (Array Int Sq_D_KeyValue) (Array Int Int) (Array Int Int) (Array Int String) (Array Int String) (Array Int Int) (Array Int Int) (Array Int Sq_D_KeyValue) Sq_Int Int) String)
(define-fun routeSeqText ((H_SIPURI_Scheme (Array Int String)) (H_SIPURI_User (Array Int String)) (H_SIPURI_Password (Array Int String)) (H_SIPURI_Host (Array Int String)) (H_SIPURI_port (Array Int Int)) (H_SIPURI_Parameters (Array Int Sq_D_KeyValue)) (H_SIPURI_Headers (Array Int Sq_D_KeyValue)) (H_AddrSpec_sipURI (Array Int Int)) (H_AddrSpec_absoluteURI (Array Int Int)) (H_AbsoluteURI_absURI (Array Int String)) (H_NameAddr_DisplayName (Array Int String)) (H_NameAddr_Addr (Array Int Int)) (H_RouteParam_nameAddr (Array Int Int)) (H_RouteParam_rrParam (Array Int Sq_D_KeyValue)) (es Sq_Int) (i Int)) String (routeSeqTextU H_SIPURI_Scheme H_SIPURI_User H_SIPURI_Password H_SIPURI_Host H_SIPURI_port H_SIPURI_Parameters H_SIPURI_Headers H_AddrSpec_sipURI H_AddrSpec_absoluteURI H_AbsoluteURI_absURI H_NameAddr_DisplayName H_NameAddr_Addr H_RouteParam_nameAddr H_RouteParam_rrParam es i))
(assert (forall ((H_SIPURI_Scheme (Array Int String)) (H_SIPURI_User (Array Int String)) (H_SIPURI_Password (Array Int String)) (H_SIPURI_Host (Array Int String)) (H_SIPURI_port (Array Int Int)) (H_SIPURI_Parameters (Array Int Sq_D_KeyValue)) (H_SIPURI_Headers (Array Int Sq_D_KeyValue)) (H_AddrSpec_sipURI (Array Int Int)) (H_AddrSpec_absoluteURI (Array Int Int)) (H_AbsoluteURI_absURI (Array Int String)) (H_NameAddr_DisplayName (Array Int String)) (H_NameAddr_Addr (Array Int Int)) (H_RouteParam_nameAddr (Array Int Int)) (H_RouteParam_rrParam (Array Int Sq_D_KeyValue)) (es Sq_Int)) (! (= (routeSeqTextU H_SIPURI_Scheme H_SIPURI_User H_SIPURI_Password H_SIPURI_Host H_SIPURI_port H_SIPURI_Parameters H_SIPURI_Headers H_AddrSpec_sipURI H_AddrSpec_absoluteURI H_AbsoluteURI_absURI H_NameAddr_DisplayName H_NameAddr_Addr H_RouteParam_nameAddr H_RouteParam_rrParam es 0) "") :pattern ((routeSeqTextU H_SIPURI_Scheme H_SIPURI_User H_SIPURI_Password H_SIPURI_Host H_SIPURI_port H_SIPURI_Parameters H_SIPURI_Headers H_AddrSpec_sipURI H_AddrSpec_absoluteURI H_AbsoluteURI_absURI H_NameAddr_DisplayName H_NameAddr_Addr H_RouteParam_nameAddr H_RouteParam_rrParam es 0)))))
(assert (forall ((H_SIPURI_Scheme (Array Int String)) (H_SIPURI_User (Array Int String)) (H_SIPURI_Password (Array Int String)) (H_SIPURI_Host (Array Int String)) (H_SIPURI_port (Array Int Int)) (H_SIPURI_Parameters (Array Int Sq_D_KeyValue)) (H_SIPURI_Headers (Array Int Sq_D_KeyValue)) (H_AddrSpec_sipURI (Array Int Int)) (H_AddrSpec_absoluteURI (Array Int Int)) (H_AbsoluteURI_absURI (Array Int String)) (H_NameAddr_DisplayName (Array Int String)) (H_NameAddr_Addr (Array Int Int)) (H_RouteParam_nameAddr (Array Int Int)) (H_RouteParam_rrParam (Array Int Sq_D_KeyValue)) (es Sq_Int) (i Int))
  (! (=> (and (> i 0) (<= i (sq_len_Int es)))
         (= (routeSeqTextU H_SIPURI_Scheme H_SIPURI_User H_SIPURI_Password H_SIPURI_Host H_SIPURI_port H_SIPURI_Parameters H_SIPURI_Headers H_AddrSpec_sipURI H_AddrSpec_absoluteURI H_AbsoluteURI_absURI H_NameAddr_DisplayName H_NameAddr_Addr H_RouteParam_nameAddr H_RouteParam_rrParam es i) (str.++ (routeSeqTextU H_SIPURI_Scheme H_SIPURI_User H_SIPURI_Password H_SIPURI_Host H_SIPURI_port H_SIPURI_Parameters H_SIPURI_Headers H_AddrSpec_sipURI H_AddrSpec_absoluteURI H_AbsoluteURI_absURI H_NameAddr_DisplayName H_NameAddr_Addr H_RouteParam_nameAddr H_RouteParam_rrParam es (- i 1)) (ite (= i 1) "" ",") (routeParamText H_SIPURI_Scheme H_SIPURI_User H_SIPURI_Password H_SIPURI_Host H_SIPURI_port H_SIPURI_Parameters H_SIPURI_Headers H_AddrSpec_sipURI H_AddrSpec_absoluteURI H_AbsoluteURI_absURI H_NameAddr_DisplayName H_NameAddr_Addr H_RouteParam_nameAddr H_RouteParam_rrParam (sq_nth_Int es (- i 1))))))
     :pattern ((routeSeqTextU H_SIPURI_Scheme H_SIPURI_User H_SIPURI_Password H_SIPURI_Host H_SIPURI_port H_SIPURI_Parameters H_SIPURI_Headers H_AddrSpec_sipURI H_AddrSpec_absoluteURI H_AbsoluteURI_absURI H_NameAddr_DisplayName H_NameAddr_Addr H_RouteParam_nameAddr H_RouteParam_rrParam es i)))))
(declare-fun recRouteSeqTextU ((Array Int String) (Array Int String) (Array Int String) (Array Int String) (Array Int Int) (Array Int Sq_D_KeyValue) (Array Int Sq_D_KeyValue) (Array Int Int) (Array Int Int) (Array Int String) (Array Int String) (Array Int Int) (Array Int Int) (Array Int Sq_D_KeyValue) Sq_Int Int) String)
(define-fun recRouteSeqText ((H_SIPURI_Scheme (Array Int String)) (H_SIPURI_User (Array Int String)) (H_SIPURI_Password (Array Int String)) (H_SIPURI_Host (Array Int String)) (H_SIPURI_port (Array Int Int)) (H_SIPURI_Parameters (Array Int Sq_D_KeyValue)) (H_SIPURI_Headers (Array Int Sq_D_KeyValue)) (H_AddrSpec_sipURI (Array Int Int)) (H_AddrSpec_absoluteURI (Array Int Int)) (H_AbsoluteURI_absURI (Array Int String)) (H_NameAddr_DisplayName (Array Int String)) (H_NameAddr_Addr (Array Int Int)) (H_RecRoute_nameAddr (Array Int Int)) (H_RecRoute_rrParam (Array Int Sq_D_KeyValue)) (es Sq_Int) (i Int)) String (recRouteSeqTextU H_SIPURI_Scheme H_SIPURI_User H_SIPURI_Password H_SIPURI_Host H_SIPURI_port H_SIPURI_Parameters H_SIPURI_Headers H_AddrSpec_sipURI H_AddrSpec_absoluteURI H_AbsoluteURI_absURI H_NameAddr_DisplayName H_NameAddr_Addr H_RecRoute_nameAddr H_RecRoute_rrParam es i))
(assert (forall ((H_SIPURI_Scheme (Array Int String)) (H_SIPURI_User (Array Int String)) (H_SIPURI_Password (Array Int String)) (H_SIPURI_Host (Array Int String)) (H_SIPURI_port (Array Int Int)) (H_SIPURI_Parameters (Array Int Sq_D_KeyValue)) (H_SIPURI_Headers (Array Int Sq_D_KeyValue)) (H_AddrSpec_sipURI (Array Int Int)) (H_AddrSpec_absoluteURI (Array Int Int)) (H_AbsoluteURI_absURI (Array Int String)) (H_NameAddr_DisplayName (Array Int String)) (H_NameAddr_Addr (Array Int Int)) (H_RecRoute_nameAddr (Array Int Int)) (H_RecRoute_rrParam (Array Int Sq_D_KeyValue)) (es Sq_Int)) (! (= (recRouteSeqTextU H_SIPURI_Scheme H_SIPURI_User H_SIPURI_Password H_SIPURI_Host H_SIPURI_port H_SIPURI_Parameters H_SIPURI_Headers H_AddrSpec_sipURI H_AddrSpec_absoluteURI H_AbsoluteURI_absURI H_NameAddr_DisplayName H_NameAddr_Addr H_RecRoute_nameAddr H_RecRoute_rrParam es 0) "") :pattern ((recRouteSeqTextU H_SIPURI_Scheme H_SIPURI_User H_SIPURI_Password H_SIPURI_Host H_SIPURI_port H_SIPURI_Parameters H_SIPURI_Headers H_AddrSpec_sipURI H_AddrSpec_absoluteURI H_AbsoluteURI_absURI H_NameAddr_DisplayName H_NameAddr_Addr H_RecRoute_nameAddr H_RecRoute_rrParam es 0)))))
(assert (forall ((H_SIPURI_Scheme (Array Int String)) (H_SIPURI_User (Array Int String)) (H_SIPURI_Password (Array Int String)) (H_SIPURI_Host (Array Int String)) (H_SIPURI_port (Array Int Int)) (H_SIPURI_Parameters (Array Int Sq_D_KeyValue)) (H_SIPURI_Headers (Array Int Sq_D_KeyValue)) (H_AddrSpec_sipURI (Array Int Int)) (H_AddrSpec_absoluteURI (Array Int Int)) (H_AbsoluteURI_absURI (Array Int String)) (H_NameAddr_DisplayName (Array Int String)) (H_NameAddr_Addr (Array Int Int)) (H_RecRoute_nameAddr (Array Int Int)) (H_RecRoute_rrParam (Array Int Sq_D_KeyValue)) (es Sq_Int) (i Int))
  (! (=> (and (> i 0) (<= i (sq_len_Int es)))
         (= (recRouteSeqTextU H_SIPURI_Scheme H_SIPURI_User H_SIPURI_Password H_SIPURI_Host H_SIPURI_port H_SIPURI_Parameters H_SIPURI_Headers H_AddrSpec_sipURI H_AddrSpec_absoluteURI H_AbsoluteURI_absURI H_NameAddr_DisplayName H_NameAddr_Addr H_RecRoute_nameAddr H_RecRoute_rrParam es i) (str.++ (recRouteSeqTextU H_SIPURI_Scheme H_SIPURI_User H_SIPURI_Password H_SIPURI_Host H_SIPURI_port H_SIPURI_Parameters H_SIPURI_Headers H_AddrSpec_sipURI H_AddrSpec_absoluteURI H_AbsoluteURI_absURI H_NameAddr_DisplayName H_NameAddr_Addr H_RecRoute_nameAddr H_RecRoute_rrParam es (- i 1)) (ite (= i 1) "" ",") (recRouteText H_SIPURI_Scheme H_SIPURI_User H_SIPURI_Password H_SIPURI_Host H_SIPURI_port H_SIPURI_Parameters H_SIPURI_Headers H_AddrSpec_sipURI H_AddrSpec_absoluteURI H_AbsoluteURI_absURI H_NameAddr_DisplayName H_NameAddr_Addr H_RecRoute_nameAddr H_RecRoute_rrParam (sq_nth_Int es (- i 1))))))
     :pattern ((recRouteSeqTextU H_SIPURI_Scheme H_SIPURI_User H_SIPURI_Password H_SIPURI_Host H_SIPURI_port H_SIPURI_Parameters H_SIPURI_Headers H_AddrSpec_sipURI H_AddrSpec_absoluteURI H_AbsoluteURI_absURI H_NameAddr_DisplayName H_NameAddr_Addr H_RecRoute_nameAddr H_RecRoute_rrParam es i)))))
; the part of a FromSpec value before its header parameters: name-addr form or bare addr-spec form (opaque; unfolded by its axiom)
(declare-fun fromHeadTextU ((Array Int String) (Array Int String) (Array Int String) (Array Int String) (Array Int Int) (Array Int Sq_D_KeyValue) (Array Int Sq_D_KeyValue) (Array Int Int) (Array Int Int) (Array Int String) (Array Int String) (Array Int Int) (Array Int Int) (Array Int Int) Int) String)
(define-fun fromHeadText ((H_SIPURI_Scheme (Array Int String)) (H_SIPURI_User (Array Int String)) (H_SIPURI_Password (Array Int String)) (H_SIPURI_Host (Array Int String)) (H_SIPURI_port (Array Int Int)) (H_SIPURI_Parameters (Array Int Sq_D_KeyValue)) (H_SIPURI_Headers (Array Int Sq_D_KeyValue)) (H_AddrSpec_sipURI (Array Int Int)) (H_AddrSpec_absoluteURI (Array Int Int)) (H_AbsoluteURI_absURI (Array Int String)) (H_NameAddr_DisplayName (Array Int String)) (H_NameAddr_Addr (Array Int Int)) (H_FromSpec_nameAddr (Array Int Int)) (H_FromSpec_addrSpec (Array Int Int)) (f Int)) String (fromHeadTextU H_SIPURI_Scheme H_SIPURI_User H_SIPURI_Password H_SIPURI_Host H_SIPURI_port H_SIPURI_Parameters H_SIPURI_Headers H_AddrSpec_sipURI H_AddrSpec_absoluteURI H_AbsoluteURI_absURI H_NameAddr_DisplayName H_NameAddr_Addr H_FromSpec_nameAddr H_FromSpec_addrSpec f))
(assert (forall ((H_SIPURI_Scheme (Array Int String)) (H_SIPURI_User (Array Int String)) (H_SIPURI_Password (Array Int String)) (H_SIPURI_Host (Array Int String)) (H_SIPURI_port (Array Int Int)) (H_SIPURI_Parameters (Array Int Sq_D_KeyValue)) (H_SIPURI_Headers (Array Int Sq_D_KeyValue)) (H_AddrSpec_sipURI (Array Int Int)) (H_AddrSpec_absoluteURI (Array Int Int)) (H_AbsoluteURI_absURI (Array Int String)) (H_NameAddr_DisplayName (Array Int String)) (H_NameAddr_Addr (Array Int Int)) (H_FromSpec_nameAddr (Array Int Int)) (H_FromSpec_addrSpec (Array Int Int)) (f Int))
  (! (= (fromHeadTextU H_SIPURI_Scheme H_SIPURI_User H_SIPURI_Password H_SIPURI_Host H_SIPURI_port H_SIPURI_Parameters H_SIPURI_Headers H_AddrSpec_sipURI H_AddrSpec_absoluteURI H_AbsoluteURI_absURI H_NameAddr_DisplayName H_NameAddr_Addr H_FromSpec_nameAddr H_FromSpec_addrSpec f)
        (ite (not (= (select H_FromSpec_nameAddr f) 0)) (nameAddrText H_SIPURI_Scheme H_SIPURI_User H_SIPURI_Password H_SIPURI_Host H_SIPURI_port H_SIPURI_Parameters H_SIPURI_Headers H_AddrSpec_sipURI H_AddrSpec_absoluteURI H_AbsoluteURI_absURI H_NameAddr_DisplayName H_NameAddr_Addr (select H_FromSpec_nameAddr f))
             (ite (not (= (select H_FromSpec_addrSpec f) 0)) (addrSpecText H_SIPURI_Scheme H_SIPURI_User H_SIPURI_Password H_SIPURI_Host H_SIPURI_port H_SIPURI_Parameters H_SIPURI_Headers H_AddrSpec_sipURI H_AddrSpec_absoluteURI H_AbsoluteURI_absURI (select H_FromSpec_addrSpec f)) "")))
     :pattern ((fromHeadTextU H_SIPURI_Scheme H_SIPURI_User H_SIPURI_Password H_SIPURI_Host H_SIPURI_port H_SIPURI_Parameters H_SIPURI_Headers H_AddrSpec_sipURI H_AddrSpec_absoluteURI H_AbsoluteURI_absURI H_NameAddr_DisplayName H_NameAddr_Addr H_FromSpec_nameAddr H_FromSpec_addrSpec f)))))
; the part of a To value before its header parameters: name-addr form or bare addr-spec form (opaque; unfolded by its axiom)
(declare-fun toHeadTextU ((Array Int String) (Array Int String) (Array Int String) (Array Int String) (Array Int Int) (Array Int Sq_D_KeyValue) (Array Int Sq_D_KeyValue) (Array Int Int) (Array Int Int) (Array Int String) (Array Int String) (Array Int Int) (Array Int Int) (Array Int Int) Int) String)
(define-fun toHeadText ((H_SIPURI_Scheme (Array Int String)) (H_SIPURI_User (Array Int String)) (H_SIPURI_Password (Array Int String)) (H_SIPURI_Host (Array Int String)) (H_SIPURI_port (Array Int Int)) (H_SIPURI_Parameters (Array Int Sq_D_KeyValue)) (H_SIPURI_Headers (Array Int Sq_D_KeyValue)) (H_AddrSpec_sipURI (Array Int Int)) (H_AddrSpec_absoluteURI (Array Int Int)) (H_AbsoluteURI_absURI (Array Int String)) (H_NameAddr_DisplayName (Array Int String)) (H_NameAddr_Addr (Array Int Int)) (H_To_nameAddr (Array Int Int)) (H_To_addrSpec (Array Int Int)) (f Int)) String (toHeadTextU H_SIPURI_Scheme H_SIPURI_User H_SIPURI_Password H_SIPURI_Host H_SIPURI_port H_SIPURI_Parameters H_SIPURI_Headers H_AddrSpec_sipURI H_AddrSpec_absoluteURI H_AbsoluteURI_absURI H_NameAddr_DisplayName H_NameAddr_Addr H_To_nameAddr H_To_addrSpec f))
(assert (forall ((H_SIPURI_Scheme (Array Int String)) (H_SIPURI_User (Array Int String)) (H_SIPURI_Password (Array Int String)) (H_SIPURI_Host (Array Int String)) (H_SIPURI_port (Array Int Int)) (H_SIPURI_Parameters (Array Int Sq_D_KeyValue)) (H_SIPURI_Headers (Array Int Sq_D_KeyValue)) (H_AddrSpec_sipURI (Array Int Int)) (H_AddrSpec_absoluteURI (Array Int Int)) (H_AbsoluteURI_absURI (Array Int String)) (H_NameAddr_DisplayName (Array Int String)) (H_NameAddr_Addr (Array Int Int)) (H_To_nameAddr (Array Int Int)) (H_To_addrSpec (Array Int Int)) (f Int))
  (! (= (toHeadTextU H_SIPURI_Scheme H_SIPURI_User H_SIPURI_Password H_SIPURI_Host H_SIPURI_port H_SIPURI_Parameters H_SIPURI_Headers H_AddrSpec_sipURI H_AddrSpec_absoluteURI H_AbsoluteURI_absURI H_NameAddr_DisplayName H_NameAddr_Addr H_To_nameAddr H_To_addrSpec f)
        (ite (not (= (select H_To_nameAddr f) 0)) (nameAddrText H_SIPURI_Scheme H_SIPURI_User H_SIPURI_Password H_SIPURI_Host H_SIPURI_port H_SIPURI_Parameters H_SIPURI_Headers H_AddrSpec_sipURI H_AddrSpec_absoluteURI H_AbsoluteURI_absURI H_NameAddr_DisplayName H_NameAddr_Addr (select H_To_nameAddr f))
             (ite (not (= (select H_To_addrSpec f) 0)) (addrSpecText H_SIPURI_Scheme H_SIPURI_User H_SIPURI_Password H_SIPURI_Host H_SIPURI_port H_SIPURI_Parameters H_SIPURI_Headers H_AddrSpec_sipURI H_AddrSpec_absoluteURI H_AbsoluteURI_absURI (select H_To_addrSpec f)) "")))
     :pattern ((toHeadTextU H_SIPURI_Scheme H_SIPURI_User H_SIPURI_Password H_SIPURI_Host H_SIPURI_port H_SIPURI_Parameters H_SIPURI_Headers H_AddrSpec_sipURI H_AddrSpec_absoluteURI H_AbsoluteURI_absURI H_NameAddr_DisplayName H_NameAddr_Addr H_To_nameAddr H_To_addrSpec f)))))

;@chunk hdrline hdrNameOf hdrValueOf
; name and value of a header line "name: value" as the decoder splits it (value with surrounding blanks removed)
(define-fun hdrNameOf ((l String)) String (str.substr l 0 (str.indexof l ":" 0)))
(define-fun hdrValueOf ((l String)) String (trimSpace (str.substr l (+ (str.indexof l ":" 0) 1) (- (str.len l) (+ (str.indexof l ":" 0) 1)))))
;@ghost rlIn (Seq String)
;@ghost rlOut (Seq String)
;@ghost rlOk (Seq Bool)

;@chunk uritext uriBody uriNoHdr uriHdrPart uriCore uriParamPart uriHostPort uriUserInfo
; the parts of a sip:/sips: URI text as ParseSipURI cuts it: scheme, then [?headers] off the end, then [;params], then [userinfo@]hostport
(define-fun uriBody ((u String)) String (ite (str.prefixof "sip:" u) (str.substr u 4 (- (str.len u) 4)) (str.substr u 5 (- (str.len u) 5))))
(define-fun uriNoHdr ((b String)) String (ite (>= (str.indexof b "?" 0) 0) (str.substr b 0 (str.indexof b "?" 0)) b))
(define-fun uriHdrPart ((b String)) String (str.substr b (+ (str.indexof b "?" 0) 1) (- (str.len b) (+ (str.indexof b "?" 0) 1))))
(define-fun uriCore ((n String)) String (ite (>= (str.indexof n ";" 0) 0) (str.substr n 0 (str.indexof n ";" 0)) n))
(define-fun uriParamPart ((n String)) String (str.substr n (+ (str.indexof n ";" 0) 1) (- (str.len n) (+ (str.indexof n ";" 0) 1))))
(define-fun uriHostPort ((c String)) String (ite (>= (str.indexof c "@" 0) 0) (str.substr c (+ (str.indexof c "@" 0) 1) (- (str.len c) (+ (str.indexof c "@" 0) 1))) c))
(define-fun uriUserInfo ((c String)) String (ite (>= (str.indexof c "@" 0) 0) (str.substr c 0 (str.indexof c "@" 0)) ""))
;@ghost stampSeenHops (Seq Int)
